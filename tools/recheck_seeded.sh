#!/bin/bash
# tools/recheck_seeded.sh [pattern] : apply every kept seeded change to a scratch worktree of /repo HEAD and run the check that
# is recorded as catching it (tools/seed_expect.tsv); prints one line per change. Evidence/replays go to a scratch dir.
export GOFLAGS=-mod=mod GOPROXY=off GOSUMDB=off GOTOOLCHAIN=local
pat="${1:-.}"
OUT=/tmp/recheck-out-$$; mkdir -p $OUT
bad=0
grep -v '^#' /verif/tools/seed_expect.tsv | grep -E "$pat" | while IFS=$'\t' read -r seed chk; do
  case "$chk" in NONE|THOROUGH:*) echo "$seed: $chk (not run)"; continue;; esac
  WT=/tmp/wt-recheck-$$
  git -C /repo worktree add -q --detach $WT HEAD || exit 2
  if ! (cd $WT && git apply /verif/seeded/$seed/patch.diff 2>/dev/null); then echo "$seed: PATCH DOES NOT APPLY to HEAD"; git -C /repo worktree remove --force $WT; continue; fi
  out=$(VERIF_REPO=$WT VERIF_OUT=$OUT /verif/check $chk quick 2>&1); code=$?
  cls=$(echo "$out" | grep -o "class=[a-z0-9-]*" | sort -u | tr '\n' ' ')
  if [ $code -eq 1 ]; then echo "$seed: caught by $chk ($cls)"; else echo "$seed: MISSED by $chk (exit $code)"; fi
  git -C /repo worktree remove --force $WT
done
rm -rf $OUT
