#!/bin/bash
# tools/recheck_seeded.sh [shard nshards] : apply every kept seeded change to a scratch worktree of /repo HEAD and run the
# check recorded as catching it (tools/seed_expect.tsv), quick tier; one line per change. Evidence/replays go to a scratch dir.
# Run it from a snapshot of /verif (VERIF_HOME=<worktree of /verif>) when the harness is being edited at the same time:
# every check copies sim/harness when it starts. Several shards can run side by side (VERIF_WORKERS limits each).
export GOFLAGS=-mod=mod GOPROXY=off GOSUMDB=off GOTOOLCHAIN=local
sh=${1:-0}; n=${2:-1}; HOME_V=${VERIF_HOME:-/verif}
OUT=/tmp/recheck-out-$$; mkdir -p $OUT
i=0
grep -v '^#' $HOME_V/tools/seed_expect.tsv | while IFS=$'\t' read -r seed chk; do
  i=$((i+1)); [ $((i % n)) -eq $sh ] || continue
  case "$chk" in NONE) echo "$seed: documented miss (not run)"; continue;; THOROUGH:*) echo "$seed: thorough only (not run)"; continue;; esac
  WT=/tmp/wt-recheck-$$
  git -C /repo worktree add -q --detach $WT HEAD || exit 2
  if ! (cd $WT && git apply $HOME_V/seeded/$seed/patch.diff 2>/dev/null); then echo "$seed: PATCH DOES NOT APPLY to HEAD"; git -C /repo worktree remove --force $WT; continue; fi
  out=$(VERIF_REPO=$WT VERIF_OUT=$OUT $HOME_V/check $chk quick 2>&1); code=$?
  cls=$(echo "$out" | grep -o "class=[a-z0-9-]*" | sort -u | tr '\n' ' ')
  if [ $code -eq 1 ]; then echo "$seed: caught by $chk ($cls)"; else echo "$seed: MISSED by $chk (exit $code)"; fi
  git -C /repo worktree remove --force $WT
done
rm -rf $OUT
