#!/bin/bash
# tools/try_seeded.sh <seeded-dir> [check ids...]
# Confirms a seeded change in a scratch worktree (applies, builds, existing tests pass, demo fails with it and passes
# without it) and runs the given checks (quick tier) against the changed tree. Evidence/replays of these runs go to
# a scratch dir, never to /verif/evidence.
set -u
export GOFLAGS=-mod=mod GOPROXY=off GOSUMDB=off GOTOOLCHAIN=local
D="$(cd "$1" && pwd)"; shift
WT=/tmp/wt-confirm-$$
OUT=/tmp/seeded-run-$$
git -C /repo worktree add -q --detach "$WT" HEAD || exit 2
trap 'git -C /repo worktree remove --force "$WT" >/dev/null 2>&1; rm -rf "$OUT"' EXIT
cd "$WT"
if [ -x "$D/demo.sh" ] || [ -f "$D/demo.sh" ]; then
  bash "$D/demo.sh" "$WT" >/dev/null 2>&1; echo "demo on pristine tree: exit $? (want 0)"
fi
git apply "$D/patch.diff" || { echo "PATCH DOES NOT APPLY"; exit 2; }
go build ./... || { echo "DOES NOT BUILD"; exit 2; }
go test -vet=off -count=1 ./... > "$OUT.test" 2>&1; echo "existing tests with the change: exit $? (want 0)"; grep -v "no test files" "$OUT.test" | grep -v "^ok" | head -5; rm -f "$OUT.test"
if [ -f "$D/demo.sh" ]; then
  bash "$D/demo.sh" "$WT" >/dev/null 2>&1; echo "demo on changed tree: exit $? (want non-zero)"
fi
git status --short | grep -v '^ M' | head -3
mkdir -p "$OUT"
for id in "$@"; do
  tier=quick
  case "$id" in *:thorough) tier=thorough; id="${id%%:*}";; esac
  VERIF_REPO="$WT" VERIF_OUT="$OUT" "${VERIF_HOME:-/verif}/check" "$id" $tier > "$OUT/$id.log" 2>&1
  code=$?
  echo "check $id $tier on changed tree: exit $code"
  grep -E "^VIOLATION|^KNOWN|^HARNESS|class=" "$OUT/$id.log" | head -4
  grep -A2 "class=" "$OUT/$id.log" | sed -n '2,3p' | cut -c1-400
done
