#!/bin/bash
# tools/runall.sh [tier] : run every registered check on the current tree, print one line each
tier=${1:-quick}
for id in $(python3 -c "import json;print(' '.join(c['property_id'] for c in json.load(open('/verif/MANIFEST.json'))['checks']))"); do
  out=$(/verif/check $id $tier 2>&1); code=$?
  echo "exit=$code $(echo "$out" | grep "$id $tier seed" | cut -c1-200)"
  if [ $code -ne 0 ]; then echo "$out" | grep -A3 "^VIOLATION\|^HARNESS" | head -12 | cut -c1-400; fi
done
