#!/usr/bin/env python3
"""tools/keep_seeded.py <src-dir> <name> <caught-by-text> : copy a confirmed seeded change to /verif/seeded/<name>/ and record what was run."""
import sys, os, json, shutil
src, name, caught = sys.argv[1], sys.argv[2], sys.argv[3]
dst = os.path.join('/verif/seeded', name)
if os.path.exists(dst): shutil.rmtree(dst)
shutil.copytree(src, dst)
for f in os.listdir(dst):
    p=os.path.join(dst,f)
    if os.path.isfile(p) and os.path.getsize(p) > 400000: os.remove(p)
mp = os.path.join(dst, 'meta.json')
try: meta = json.load(open(mp))
except Exception: meta = {}
meta['confirmed_by_me'] = "tools/try_seeded.sh: patch applies to a scratch worktree of /repo HEAD, go build ok, existing test suite passes with the change, demo.sh exits 0 on the pristine tree and non-zero on the changed tree"
meta['checks_run'] = caught
json.dump(meta, open(mp,'w'), indent=1)
print('kept', dst)
