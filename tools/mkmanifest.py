#!/usr/bin/env python3
"""Writes /verif/MANIFEST.json from the table below (kept in one place so the manifest stays valid)."""
import json, subprocess, os

V = os.path.dirname(os.path.dirname(os.path.abspath(__file__)))

TECH = "deterministic simulation with fault injection: seeded search over map-iteration schedules / fault plans of the instrumented generator"
TECHB = "deterministic simulation with fault injection: seeded search over generator schedules, token-feed faults, aborted parses and context interleavings of the real generated parsers"

checks = {
 "C03": dict(level="exploration", engine="A", technique=TECH + "; oracle: canonical LR(1) collection merged by core",
   text="Seeded exploration: every grammar (textbook separator families, all small grammars of family FX in thorough, random CFGs with precedence) is run through the real lookahead computation under K controlled map-iteration schedules; every reduction's lookahead set is compared with the LR(1)-merge definition and the conflict warning with the reference conflict analysis. Sampling, not proof.",
   note="Trusts the reference LR(1) construction and the legality of simulated iteration orders; grammars whose LR(1) collection exceeds 6000 states are excluded.", ref="5 C03"),
 "C05": dict(level="exploration", engine="A", technique=TECH + "; oracle: documented packed lookup over all cells vs the dense table of the same run",
   text="Seeded exploration over grammars x schedules: for every packed run ALL (state, symbol) cells are looked up through the packed vectors and compared with the dense table. Covers matrices that arise from grammars under some schedule; arbitrary matrices fed to the packing routine are a pure-function question and not claimed.",
   note="The lookup mirrored by the harness is the documented one of the generated Action(); engine B cross-checks it through generated code.", ref="5 C05"),
 "C09": dict(level="exploration", engine="A", technique=TECH + "; oracle: set-based canonical LR(0) collection",
   text="Seeded exploration: the automaton built under K map-iteration schedules per grammar is compared state by state (item sets, transitions, start state, no duplicates) with a reference canonical LR(0) collection; family FX is enumerated completely in thorough.",
   note="Trusts the reference construction; states are compared by item set, so renumbering refactors do not alarm.", ref="5 C09"),
 "C13": dict(level="fault_enumeration", engine="A", technique="deterministic simulation with fault injection: enumerated truncation points and seeded byte/sector damage of the grammar file under a simulated tick clock with hang/deadlock detection",
   text="Fault enumeration: EVERY truncation point of every base text plus seeded substitutions, insertions, deletions and sector faults; lexer and parser tasks run on a simulated tick clock, 'does not finish' is a deterministic replayable outcome (budget 200 x base + 1e6 ticks), confirmed against the real CLI with a 10 s deadline before it is reported.",
   note="Assumes every loop carries a tick (instrumenter adds them generically) and that 200x the base's ticks is beyond any terminating run.", ref="5 C13"),
 "C14": dict(level="exploration", engine="A", technique=TECH + "; oracle: byte equality of output files across schedules, regenerations and real CLI processes",
   text="Seeded exploration: for each grammar x 5 output variants the output bytes under canonical, reverse, rotated and shuffled map-iteration schedules (every range-over-map of the tree is behind the seam) must be identical; same-process regeneration and N separate runs of the uninstrumented CLI close the gap to real executions. A violation names the map-range sites whose order changes the bytes.",
   note="Real Go map iteration realises a subset of the simulated orders; un-owned nondeterminism sources are listed by the seam audit and caught by the real-CLI comparison.", ref="5 C14"),
}

not_applicable = [
 dict(property_id="C10", reason="Pure function of the input text: the path from file text to the rule list has no runtime-, OS- or caller-chosen outcome (no schedule, clock, fault or interleaving); deciding it needs layout generation with a round-trip oracle, i.e. property-based testing, not simulation (DESIGN.md section 6)."),
]

pending = ["C01","C02","C04","C06","C07","C08","C11","C12","C15","C16","C17","C18","C19"]

def main():
    hooks = subprocess.run(["git","-C","/repo","log","--format=%H %s","--grep=^verif hook"],capture_output=True,text=True).stdout.strip().splitlines()
    m = {
     "version": 1,
     "setup_cmd": "./check setup",
     "hooks": {
       "guard": "verif (Go build tag)",
       "enable": "checks instrument a scratch copy of /repo's working tree (sim/instrument) and build it with `go build -tags verif`; /repo itself only carries the tag-guarded accessor LALR/verif_access.go",
       "baseline_off_cmd": "cd /repo && GOFLAGS=-mod=mod GOPROXY=off GOSUMDB=off GOTOOLCHAIN=local go test -vet=off -count=1 ./...",
       "source_commits": [h.split()[0] for h in hooks],
       "add_only": True,
     },
     "engines": [
       {"name":"engine-A","path":"sim/harness/enga","serves_properties":[k for k,c in checks.items() if c["engine"]=="A"],"kind_free_text":"in-process simulation of the real generator (instrumented copy of the current tree): map-iteration order, tick clock, tasks, stdout, fs effects behind seams owned by sim/simrt"},
       {"name":"engine-B","path":"sim/harness/engb","serves_properties":[k for k,c in checks.items() if c["engine"]=="B"],"kind_free_text":"batch-compiles the generated parsers (real go build / node) and drives them under a simulated environment: token feed with faults, aborted parses, seeded context interleavings"},
     ],
     "checks": [],
     "not_applicable": not_applicable + [dict(property_id=p, reason="check not built yet in this round (planned, see DESIGN.md section 5); not claimed") for p in pending if p not in checks],
     "notes": "All checks: ./check <ID> quick|thorough, VERIF_SEED selects the seed, VERIF_BUDGET the exploration wall-clock budget. Exit 0 held / 1 VIOLATION / 2 harness trouble. Replay: ./check --replay <file>.",
    }
    for pid in sorted(checks):
        c = checks[pid]
        m["checks"].append({
          "property_id": pid,
          "quick_cmd": f"./check {pid} quick",
          "thorough_cmd": f"./check {pid} thorough",
          "evidence_file": f"/verif/evidence/{pid}.json",
          "replay_cmd_template": "./check --replay {path}",
          "engine": "engine-" + c["engine"],
          "level_claimed": {"category": c["level"], "text": c["text"], "design_ref": "DESIGN.md section " + c["ref"]},
          "level_note": c["note"],
          "technique": c["technique"],
        })
    json.dump(m, open(os.path.join(V,"MANIFEST.json"),"w"), indent=1)
    print("MANIFEST.json written:", len(m["checks"]), "checks,", len(m["not_applicable"]), "not applicable/pending")

main()
