#!/usr/bin/env python3
"""Writes /verif/MANIFEST.json from the table below (kept in one place so the manifest stays valid)."""
import json, subprocess, os

V = os.path.dirname(os.path.dirname(os.path.abspath(__file__)))

TECH = "deterministic simulation with fault injection: seeded search over map-iteration schedules / fault plans of the instrumented generator"
TECHB = "deterministic simulation with fault injection: seeded search over generator schedules, token-feed faults, aborted parses and context interleavings of the real generated parsers"

checks = {
 "C03": dict(level="exploration", engine="A", technique=TECH + "; oracle: canonical LR(1) collection merged by core",
   text="Seeded exploration: every grammar (textbook separator families, all small grammars of family FX in thorough, random CFGs with precedence) is run through the real lookahead computation under K controlled map-iteration schedules; every reduction's lookahead set is compared with the LR(1)-merge definition and the conflict warning with the reference conflict analysis. Sampling, not proof.",
   note="Trusts the reference LR(1) construction and the legality of simulated iteration orders; grammars whose LR(1) collection exceeds 6000 states are excluded.", ref="5 C03"),
 "C05": dict(level="exploration", engine="A", technique=TECH + "; oracle: documented packed lookup over all cells vs the dense table of the same run",
   text="Seeded exploration over grammars x schedules: for every packed run ALL (state, symbol) cells are looked up through the packed vectors and compared with the dense table. Covers matrices that arise from grammars under some schedule; arbitrary matrices fed to the packing routine are a pure-function question and not claimed.",
   note="The lookup mirrored by the harness is the documented one of the generated Action(); engine B cross-checks it through generated code.", ref="5 C05"),
 "C09": dict(level="exploration", engine="A", technique=TECH + "; oracle: set-based canonical LR(0) collection",
   text="Seeded exploration: the automaton built under K map-iteration schedules per grammar is compared state by state (item sets, transitions, start state, no duplicates) with a reference canonical LR(0) collection; family FX is enumerated completely in thorough.",
   note="Trusts the reference construction; states are compared by item set, so renumbering refactors do not alarm.", ref="5 C09"),
 "C13": dict(level="fault_enumeration", engine="A", technique="deterministic simulation with fault injection: enumerated truncation points and seeded byte/sector damage of the grammar file under a simulated tick clock with hang/deadlock detection",
   text="Fault enumeration: EVERY truncation point of every base text plus seeded substitutions, insertions, deletions and sector faults; lexer and parser tasks run on a simulated tick clock, 'does not finish' is a deterministic replayable outcome (budget 200 x base + 1e6 ticks), confirmed against the real CLI with a 10 s deadline before it is reported.",
   note="Assumes every loop carries a tick (instrumenter adds them generically) and that 200x the base's ticks is beyond any terminating run.", ref="5 C13"),
 "C14": dict(level="exploration", engine="A", technique=TECH + "; oracle: byte equality of output files across schedules, regenerations and real CLI processes",
   text="Seeded exploration: for each grammar x 7 option sets (the 5 output variants and the web-debugger builds -d, -o -d) the output bytes under canonical, reverse, rotated and shuffled map-iteration schedules (every range-over-map of the tree is behind the seam) must be identical; same-process regeneration and N separate runs of the uninstrumented CLI close the gap to real executions. A violation names the map-range sites whose order changes the bytes.",
   note="Real Go map iteration realises a subset of the simulated orders; un-owned nondeterminism sources are listed by the seam audit and caught by the real-CLI comparison.", ref="5 C14"),
}


RM = "Trusts the reference models (Earley recogniser, derivation replay, attribute evaluation, LR(1)-merge classification) and the simulated environment (token source, step budget, watchdog); TypeScript runs after a type-erasing stub because no tsc/node>=22 is installed."
checks.update({
 "C01": dict(level="exploration", engine="B", technique=TECHB + "; oracle: derivation replay against the specified grammar + Earley membership",
   text="Seeded exploration: batches of grammars (incl. conflict grammars resolved by default/precedence) are generated under controlled map-order schedules in all five variants, compiled (real go build / node) and run on classified inputs (random sentences, every short string, mutants, every prefix, unknown codes); every accepted parse must replay as a rightmost derivation in reverse of exactly the input.",
   note=RM, ref="5 C01"),
 "C02": dict(level="exploration", engine="B", technique=TECHB + "; oracle: Earley membership on reference-classified LALR(1) grammars",
   text="Seeded exploration as C01, restricted to grammars the reference (not yaccgo) classifies as conflict-free LALR(1): every sentence (exhaustive up to a bound, sampled beyond) must be accepted by every variant.",
   note=RM, ref="5 C02"),
 "C04": dict(level="exploration", engine="A", technique=TECH + "; oracle: documented yacc resolution applied to the candidate set of the same run",
   text="Seeded exploration over operator tables, conflict grammars and random CFGs with random precedence: every two-candidate table cell of every run is compared with the documented resolution (level, associativity, %nonassoc error, default shift, earlier rule).",
   note="Multi-way cells and reduce/reduce between two rules that both carry precedence are not judged; grammars where yacc's and yaccgo's rule-precedence definitions differ are excluded. Part (b) compiles operator tables in all five variants and compares grouping / %nonassoc errors of random expressions with a precedence-climbing reference.", ref="5 C04"),
 "C06": dict(level="exploration", engine="B", technique=TECHB + "; faults: truncated feed at every position, unknown codes, mutated tokens; oracle: Earley viable-prefix position",
   text="Seeded exploration with fault injection on the token source: every non-sentence must end in the documented error in every variant (never a crash, a nil result, an accept, or a loop: the driver has a step budget and a divergence watchdog), and for conflict-free grammars after requesting exactly (first non-continuable token)+1 tokens.",
   note=RM + " Non-termination of conflict grammars resolved by default is not judged (the statement promises termination for conflict-free grammars).", ref="5 C06"),
 "C07": dict(level="exploration", engine="B", technique=TECHB + "; oracle: reference attribute evaluation over the validated derivation",
   text="Seeded exploration: random arithmetic/string actions over random $i, several same-typed union fields with poisoned token values, rules of length 0..13, rules that do not assign $$; the returned start value must equal the reference evaluation in every variant.",
   note=RM + " An unassigned $$ is compared in Go only (0 vs undefined in TypeScript is not pinned).", ref="5 C07"),
 "C08": dict(level="exploration", engine="B", technique=TECHB + "; oracle: pairwise agreement of the five variants + generated lookup vs table of the same run",
   text="Seeded exploration: for each grammar the five variants generated under the SAME schedule must agree on verdict, reduction sequence, tokens requested and value for every input, and each variant's generated lookup must return the table built in that run for every (state, symbol).",
   note=RM, ref="5 C08"),
 "C11": dict(level="exploration", engine="A", technique=TECH + "; oracle: code assignment rules on the symbol table, constants and translate switch of the file written under the same schedule",
   text="Seeded exploration over token-declaration mixes x map-order schedules x both languages: literal = character code, explicit number kept, all terminal codes distinct and not -1/0, constants exactly for named tokens, translate maps every code to its own symbol and nothing else.",
   note="Constants and translate are observed through the compiled generated code (Go: go build; TypeScript: node after type erasure), not by reading the text.", ref="5 C11"),
 "C12": dict(level="exploration", engine="A", technique=TECH + "; faults: one injected grammar defect per case; oracle: reference productivity/definedness",
   text="Seeded exploration: usable grammars of all families must be processed under every schedule and variant; grammars with exactly one injected defect (undefined, rule-less, unproductive, mutually recursive, unreachable, at the start symbol, next to nullable ones, deep) must be refused with a diagnostic and without writing output.",
   note="'Says why' = a non-empty diagnostic that is not a Go runtime error.", ref="5 C12"),
 "C15": dict(level="exploration", engine="B", technique=TECHB + "; oracle: per-parse equality with the same input parsed alone",
   text="Seeded exploration over histories (init/new + parse of accepted, rejected and lexer-fails-at-i inputs) on every variant and over seeded interleavings of 2-4 -o contexts advanced one yield point at a time (uniform, burst, switch-after-reduce), half with the trace on, and over parses of the global Go form suspended at a seeded reduction for a nested parse (PushContex / ParserInit / Parser / PopContex from the action, up to two levels); every parse must equal the same input parsed alone (verdict, reductions, tokens requested, value, values handed to the lexer, trace).",
   note=RM + " Parts (a)/(b): exactly one context runs at a time (cooperative seeded scheduler), exactly replayable. Part (c): some batches also run the contexts in parallel goroutines in a -race build; a race report in generated code is a violation flagged not exactly replayable.", ref="5 C15"),
 "C16": dict(level="exploration", engine="B", technique=TECHB + "; oracle: the real go build of every output, node load after type erasure",
   text="Seeded exploration: grammars with any printable literal, long rules ($10+), empty rules, comments in actions, every tag shape and layout are generated in all variants with exactly the prologue/epilogue the statement names; every output yaccgo reports success for is compiled by go build, TypeScript outputs are loaded by node.",
   note="TypeScript type correctness cannot be decided here (no tsc).", ref="5 C16"),
 "C17": dict(level="exploration", engine="B", technique=TECHB + "; oracle: reference LR driver over the tables of the same generation + reductions recorded by the actions",
   text="Seeded exploration: every input is parsed with IsTrace on in the four Go variants; the captured lines must be exactly the actions of a reference LR run over the tables of the same generation, with the rule text of the rules actually reduced.",
   note=RM, ref="5 C17"),
 "C18": dict(level="exploration", engine="A", technique=TECH + "; oracle: same-run consistency of listing / DOT text with item sets, lookaheads and dense table",
   text="Seeded exploration: the debug listing (captured stdout of the real debug path) and the DOT text of DrawGrammar are parsed and compared with the item sets, transitions, lookaheads and dense table of the same run under several schedules.",
   note="The -g path itself needs `dot` (absent); the DOT text is taken before it would be piped.", ref="5 C18"),
 "C19": dict(level="fault_enumeration", engine="A", technique="deterministic simulation with fault injection: enumerated input-caused failure stages x placements x variants x schedules, file-system effects recorded behind the fs seam",
   text="Fault enumeration: every input-caused failure kind the code has (lexical, missing %%, rule syntax, unterminated action/comment, undefined, rule-less, unproductive, $n out of range, $0, >=2000 states) early/late x 5 variants x schedules with a pre-existing output file (short or long sentinel text, or the earlier output of the same grammar, identical or with more code at its end); oracle = bytes of the file and the ordered history of effects on its path; successful runs must leave exactly the fresh-path bytes ending with the epilogue.",
   note="Disk faults and kill-at-arbitrary-instant are outside the statement and not injected.", ref="5 C19"),
})
checks["C05"]["engine"]="A"
not_applicable = [
 dict(property_id="C10", reason="Pure function of the input text: the path from file text to the rule list has no runtime-, OS- or caller-chosen outcome (no schedule, clock, fault or interleaving); deciding it needs layout generation with a round-trip oracle, i.e. property-based testing, not simulation (DESIGN.md section 6)."),
]

pending = ["C01","C02","C04","C06","C07","C08","C11","C12","C15","C16","C17","C18","C19"]

def main():
    hooks = subprocess.run(["git","-C","/repo","log","--format=%H %s","--grep=^verif hook"],capture_output=True,text=True).stdout.strip().splitlines()
    m = {
     "version": 1,
     "setup_cmd": "./check setup",
     "hooks": {
       "guard": "verif (Go build tag)",
       "enable": "checks instrument a scratch copy of /repo's working tree (sim/instrument) and build it with `go build -tags verif`; /repo itself only carries the tag-guarded accessor LALR/verif_access.go",
       "baseline_off_cmd": "cd /repo && GOFLAGS=-mod=mod GOPROXY=off GOSUMDB=off GOTOOLCHAIN=local go test -vet=off -count=1 ./...",
       "source_commits": [h.split()[0] for h in hooks],
       "add_only": True,
     },
     "engines": [
       {"name":"engine-A","path":"sim/harness/enga","serves_properties":[k for k,c in checks.items() if c["engine"]=="A"],"kind_free_text":"in-process simulation of the real generator (instrumented copy of the current tree): map-iteration order, tick clock (string copies charged), tasks, stdout, fs effects behind seams owned by sim/simrt; -g draws through a stand-in `dot` child process; some cases also go through the uninstrumented CLI"},
       {"name":"engine-B","path":"sim/harness/engb","serves_properties":[k for k,c in checks.items() if c["engine"]=="B"],"kind_free_text":"batch-compiles the generated parsers (real go build / node) and drives them under a simulated environment: token feed with faults, aborted parses, seeded context interleavings, nested parses from actions, parses during package initialisation, million-round soaks"},
     ],
     "checks": [],
     "not_applicable": not_applicable + [dict(property_id=p, reason="check not built yet in this round (planned, see DESIGN.md section 5); not claimed") for p in pending if p not in checks],
     "notes": "All checks: ./check <ID> quick|thorough, VERIF_SEED selects the seed, VERIF_BUDGET the exploration wall-clock budget. Exit 0 held / 1 VIOLATION / 2 harness trouble. Replay: ./check --replay <file>.",
    }
    for pid in sorted(checks):
        c = checks[pid]
        m["checks"].append({
          "property_id": pid,
          "quick_cmd": f"./check {pid} quick",
          "thorough_cmd": f"./check {pid} thorough",
          "evidence_file": f"/verif/evidence/{pid}.json",
          "replay_cmd_template": "./check --replay {path}",
          "engine": "engine-" + c["engine"],
          "level_claimed": {"category": c["level"], "text": c["text"], "design_ref": "DESIGN.md section " + c["ref"]},
          "level_note": c["note"],
          "technique": c["technique"],
        })
    json.dump(m, open(os.path.join(V,"MANIFEST.json"),"w"), indent=1)
    print("MANIFEST.json written:", len(m["checks"]), "checks,", len(m["not_applicable"]), "not applicable/pending")

main()
