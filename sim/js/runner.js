// Node runner for generated TypeScript parsers (engine B, TypeScript half).
// usage: node runner.js jobs.json results.json
// jobs.json = {files: {name: path-to-generated.ts}, jobs: [Job...]} with the same Job shape as engbrt (Go).
'use strict';
const fs = require('fs');
const { erase } = require('./erase.js');

class BudgetPanic extends Error {}
class LexPanic extends Error {}

let cur = null; // environment of the running parse
function hookNext(incoming) {
  const e = cur;
  e.inHash = (Math.imul(e.inHash ^ (incoming | 0), 16777619)) >>> 0;
  e.steps++;
  if (e.steps > e.budget) throw new BudgetPanic('budget');
  const i = e.fetched;
  if (e.feed.panic_at >= 0 && i === e.feed.panic_at) { e.fetched++; throw new LexPanic('lexer failed at ' + i); }
  e.fetched++;
  const toks = e.feed.toks || [];
  if (i >= toks.length) return [-1, 0];
  return [toks[i].t, toks[i].v];
}
function hookRec(r) {
  const e = cur;
  e.steps++;
  if (e.steps > e.budget) throw new BudgetPanic('budget');
  e.recs.push({ r: r, f: e.fetched });
}

function load(path) {
  const ts = fs.readFileSync(path, 'utf8');
  const js = erase(ts);
  const logs = [];
  const fakeConsole = { error: (...a) => logs.push(a.join(' ')), log: (...a) => logs.push('LOG ' + a.join(' ')), warn: () => {} };
  let mod;
  try {
    const f = new Function('HookNext', 'HookRec', 'console',
      js + '\n;return {Parser: Parser, initialize: initialize, translate: (typeof translate === "function" ? translate : null), StateActionArray: (typeof StateActionArray !== "undefined" ? StateActionArray : null), ERROR_ACTION: (typeof ERROR_ACTION !== "undefined" ? ERROR_ACTION : null), ACCEPT_ACTION: (typeof ACCEPT_ACTION !== "undefined" ? ACCEPT_ACTION : null), VConsts: (typeof VConsts === "function" ? VConsts : null)};');
    mod = f(hookNext, hookRec, fakeConsole);
  } catch (err) {
    return { loadError: String(err && err.stack || err).slice(0, 1500) };
  }
  mod.logs = logs;
  return mod;
}

function runParse(mod, feed, budget) {
  const e = { inHash: 0, feed: feed, fetched: 0, recs: [], steps: 0, budget: budget > 0 ? budget : 10000 + 200 * (feed.toks || []).length };
  cur = e;
  mod.logs.length = 0;
  const res = { o: '', f: 0 };
  try {
    const v = mod.Parser('');
    if (v === null || v === undefined) {
      const said = mod.logs.some(l => /gramm[ae]r\s+error/i.test(l));
      res.o = said ? 'syntax' : 'nilret';
      res.m = mod.logs.join(' | ').slice(0, 300);
    } else {
      res.o = 'accept';
      res.v = JSON.parse(JSON.stringify(v));
      if (mod.logs.some(l => /gramm[ae]r\s+error/i.test(l))) { res.m = 'accepted but logged: ' + mod.logs.join(' | ').slice(0, 200); }
    }
  } catch (err) {
    if (err instanceof BudgetPanic) res.o = 'budget';
    else if (err instanceof LexPanic) res.o = 'lexpanic';
    else { res.o = 'other'; res.m = String(err && err.message || err).slice(0, 300); }
  }
  res.recs = e.recs;
  res.f = e.fetched;
  res.in = e.inHash.toString(16);
  return res;
}

function main() {
  const inp = JSON.parse(fs.readFileSync(process.argv[2], 'utf8'));
  const mods = {};
  const out = [];
  for (const j of inp.jobs) {
    const r = { p: j.p, k: j.k, tag: j.tag, err_code: 0, acc_code: 0 };
    if (!(j.p in mods)) mods[j.p] = load(inp.files[j.p]);
    const mod = mods[j.p];
    if (mod.loadError) { r.err = 'load: ' + mod.loadError; out.push(r); continue; }
    r.err_code = mod.ERROR_ACTION; r.acc_code = mod.ACCEPT_ACTION;
    if (j.k === 'parses') {
      r.parses = [];
      for (const f of j.feeds || []) { mod.initialize(); r.parses.push(runParse(mod, f, j.budget || 0)); }
    } else if (j.k === 'history') {
      r.parses = [];
      mod.initialize();
      for (const op of j.ops || []) {
        if (op.op === 'init' || op.op === 'new') mod.initialize();
        else if (op.op === 'parse') r.parses.push(runParse(mod, op.feed, j.budget || 0));
      }
    } else if (j.k === 'matrix' && !mod.StateActionArray) {
      // the table is a private detail of the generated file: a tree may name it differently
      r.matrix = []; r.matrix_missing = true;
    } else if (j.k === 'matrix') {
      r.matrix = [];
      for (let s = 0; s < j.ns; s++) {
        const row = [];
        for (let a = 0; a < j.na; a++) {
          let v = -999999;
          try { const x = mod.StateActionArray[s][a]; if (typeof x === 'number') v = x; } catch (e) {}
          row.push(v);
        }
        r.matrix.push(row);
      }
    } else if (j.k === 'translate') {
      // translate is a private helper of the generated file: a tree may name it differently
      if (mod.translate) r.trans = (j.codes || []).map(c => mod.translate(c));
      else { r.trans = []; r.trans_missing = true; }
      if (mod.VConsts) { try { r.consts = mod.VConsts(); } catch (e) { r.consts_err = String(e && e.message || e); r.consts = {}; } }
    } else {
      r.err = 'job kind not supported for typescript: ' + j.k;
    }
    out.push(r);
  }
  fs.writeFileSync(process.argv[3], JSON.stringify(out));
}
main();
