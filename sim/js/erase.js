// TypeScript type eraser (stub for tsc, which is not installed): context based, blanks annotations, keeps line/column positions
'use strict';
function tokenize(src) {
  const toks = []; let i = 0; const n = src.length;
  const idStart = /[A-Za-z_$]/, idPart = /[A-Za-z0-9_$]/;
  while (i < n) {
    const c = src[i];
    if (c === '/' && src[i+1] === '/') { let j = src.indexOf('\n', i); if (j < 0) j = n; toks.push({t:'c', s:src.slice(i,j)}); i = j; continue; }
    if (c === '/' && src[i+1] === '*') { let j = src.indexOf('*/', i+2); j = j < 0 ? n : j+2; toks.push({t:'c', s:src.slice(i,j)}); i = j; continue; }
    if (c === '"' || c === "'" || c === '`') { let j = i+1; while (j < n && src[j] !== c) { if (src[j] === '\\') j++; j++; } toks.push({t:'s', s:src.slice(i,j+1)}); i = j+1; continue; }
    if (/\s/.test(c)) { let j = i; while (j < n && /\s/.test(src[j])) j++; toks.push({t:'w', s:src.slice(i,j)}); i = j; continue; }
    if (idStart.test(c)) { let j = i; while (j < n && idPart.test(src[j])) j++; toks.push({t:'i', s:src.slice(i,j)}); i = j; continue; }
    toks.push({t:'p', s:c}); i++;
  }
  return toks;
}
function erase(src) {
  const T = tokenize(src); const out = T.map(x => x.s);
  const sig = i => { while (i < T.length && (T[i].t === 'w' || T[i].t === 'c')) i++; return i; };
  // skip a type starting at i, return index of the first token after it; stops at top-level stop chars
  function skipType(i, stops) {
    let depth = 0;
    for (; i < T.length; i++) {
      const s = T[i].s, t = T[i].t;
      if (t === 'p') {
        if (depth === 0 && stops.includes(s)) return i;
        if ('([{<'.includes(s)) depth++;
        else if (')]}>'.includes(s)) { if (depth === 0) return i; depth--; }
        else if (depth === 0 && stops.includes(s)) return i;
      }
      if (depth === 0 && t === 'w' && s.includes('\n') && stops.includes('\n')) return i;
    }
    return i;
  }
  function blank(a, b) { for (let k = a; k < b; k++) out[k] = T[k].t === 'w' ? T[k].s.replace(/[^\n]/g, ' ') : ' '; }
  function params(i) { // i at '(' ; erase ": type" inside, return index after ')'
    let depth = 0;
    for (let k = i; k < T.length; k++) {
      const s = T[k].s;
      if (T[k].t !== 'p') continue;
      if ('([{'.includes(s)) depth++;
      else if (')]}'.includes(s)) { depth--; if (depth === 0) return k+1; }
      else if (s === ':' && depth === 1) { const e = skipType(k+1, [',']); blank(k, e); k = e-1; }
    }
    return T.length;
  }
  function retType(i) { const j = sig(i); if (j < T.length && T[j].s === ':') { const e = skipType(j+1, ['{']); blank(j, e); } }
  let classDepth = -1, depth = 0, paren = 0;
  for (let i = 0; i < T.length; i++) {
    const tk = T[i];
    if (tk.t === 'p') { if (tk.s === '(') paren++; if (tk.s === ')') paren--; if (tk.s === '{') depth++; if (tk.s === '}') { depth--; if (depth === classDepth) classDepth = -1; } }
    if (tk.t !== 'i') continue;
    if (['var','let','const'].includes(tk.s)) {
      let j = sig(i+1); if (T[j] && T[j].t === 'i') { j = sig(j+1); if (T[j] && T[j].s === ':') { const e = skipType(j+1, ['=', ';', '\n']); blank(j, e); } }
    } else if (tk.s === 'function') {
      let j = sig(i+1); if (T[j] && T[j].t === 'i') j = sig(j+1);
      if (T[j] && T[j].s === '(') { const e = params(j); retType(e); }
    } else if (tk.s === 'class') { classDepth = depth; }
    else if (classDepth >= 0 && depth === classDepth + 1 && paren === 0) {
      // member: IDENT ':' type ';'   or   IDENT '(' params ')' [: type] '{'
      const j = sig(i+1);
      if (T[j] && T[j].s === ':') { const e = skipType(j+1, [';', '\n']); blank(j, e); }
      else if (T[j] && T[j].s === '(') { const e = params(j); retType(e); }
    }
  }
  return out.join('');
}
module.exports = { erase };
if (require.main === module) { const fs = require('fs'); process.stdout.write(erase(fs.readFileSync(process.argv[2], 'utf8'))); }
