// Package simrt is the simulation runtime that the instrumenter links into a
// scratch copy of acekingke/yaccgo. It owns every nondeterministic choice the
// generator makes:
//
//	SM  map iteration order   (Order)
//	ST  simulated time        (Tick, budget -> Hang)
//	SG  tasks                 (Go)
//	SO  standard output       (Print*, captured)
//	SF  file-system effects   (Create, OpenFile, WriteFile, Remove, Rename, ...)
//	SX  process exit          (Exit)
//
// Nothing in here reads a clock or math/rand; every choice is a function of
// the Plan installed by the harness.
package simrt

import (
	"fmt"
	"io"
	"io/fs"
	"os"
	"reflect"
	"sort"
	"strings"
	"sync"
	"sync/atomic"
)

// ---------------------------------------------------------------- PRNG

// SplitMix64; one independent stream per (case, site).
type Rng struct{ s uint64 }

func NewRng(seed uint64) *Rng { return &Rng{s: seed} }
func (r *Rng) Next() uint64 {
	r.s += 0x9E3779B97F4A7C15
	z := r.s
	z = (z ^ (z >> 30)) * 0xBF58476D1CE4E5B9
	z = (z ^ (z >> 27)) * 0x94D049BB133111EB
	return z ^ (z >> 31)
}
func (r *Rng) Intn(n int) int {
	if n <= 1 {
		return 0
	}
	return int(r.Next() % uint64(n))
}

func HashString(s string) uint64 {
	h := uint64(14695981039346656037)
	for i := 0; i < len(s); i++ {
		h ^= uint64(s[i])
		h *= 1099511628211
	}
	return h
}

// ---------------------------------------------------------------- plan

// Policy of one map-range site.
//
//	"asc"      canonical order (content based)
//	"desc"     reverse canonical
//	"rot:k"    canonical rotated by k
//	"shuffle"  seeded Fisher-Yates, fresh permutation per execution
//	"swap:e:i" canonical, but in execution #e (0-based) entries i and i+1 are exchanged
type Plan struct {
	Seed    uint64            // seed for shuffles
	Default string            // policy for sites without an override
	Sites   map[string]string // site id -> policy
	Budget  int64             // tick budget, 0 = unlimited
}

type siteState struct {
	execs int
	rng   *Rng
}

var (
	mu       sync.Mutex
	plan     Plan
	sites    map[string]*siteState
	decHash  uint64
	decCount int
	siteLog  map[string]int // site -> executions with >= 2 keys
	siteSeen map[string]int // site -> executions
	ticks    int64
	budget   int64 = 1<<63 - 1 // unlimited until a plan sets one
	hung     int32
	hangCh   chan struct{}
	tieSites map[string]int

	capOn  bool
	capBuf strings.Builder

	fsLog []FsEvent
	stage string
)

// FsEvent is one path-level effect.
type FsEvent struct {
	Op    string
	Path  string
	Path2 string
	Tick  int64
	Stage string
	Err   string
}

// Reset installs a plan and clears all per-run state.
func Reset(p Plan) {
	mu.Lock()
	defer mu.Unlock()
	plan = p
	if plan.Default == "" {
		plan.Default = "asc"
	}
	sites = map[string]*siteState{}
	siteLog = map[string]int{}
	siteSeen = map[string]int{}
	tieSites = map[string]int{}
	decHash = 14695981039346656037
	decCount = 0
	ticks = 0
	budget = p.Budget
	if budget <= 0 {
		budget = 1<<63 - 1
	}
	atomic.StoreInt32(&hung, 0)
	hangCh = make(chan struct{})
	capBuf.Reset()
	fsLog = nil
	stage = ""
}

// ---------------------------------------------------------------- SM

type Entry[K comparable, V any] struct {
	K K
	m map[K]V
}

// Get is a live lookup: an entry deleted before it is reached is skipped.
func (e Entry[K, V]) Get() (V, bool) { v, ok := e.m[e.K]; return v, ok }

func renderVal(v reflect.Value, depth int, b *strings.Builder) {
	if depth > 4 {
		b.WriteString("~")
		return
	}
	switch v.Kind() {
	case reflect.Int, reflect.Int8, reflect.Int16, reflect.Int32, reflect.Int64:
		// order preserving for the string comparison: offset + zero padding
		fmt.Fprintf(b, "i%020d", uint64(v.Int())+(1<<63))
	case reflect.Uint, reflect.Uint8, reflect.Uint16, reflect.Uint32, reflect.Uint64, reflect.Uintptr:
		fmt.Fprintf(b, "u%020d", v.Uint())
	case reflect.String:
		b.WriteString("s")
		b.WriteString(v.String())
	case reflect.Bool:
		if v.Bool() {
			b.WriteString("b1")
		} else {
			b.WriteString("b0")
		}
	case reflect.Float32, reflect.Float64:
		fmt.Fprintf(b, "f%v", v.Float())
	case reflect.Ptr, reflect.Interface:
		if v.IsNil() {
			b.WriteString("nil")
			return
		}
		b.WriteString("&")
		renderVal(v.Elem(), depth+1, b)
	case reflect.Struct:
		b.WriteString("{")
		for i := 0; i < v.NumField(); i++ {
			renderVal(v.Field(i), depth+1, b)
			b.WriteString(",")
		}
		b.WriteString("}")
	case reflect.Slice, reflect.Array:
		b.WriteString("[")
		for i := 0; i < v.Len(); i++ {
			renderVal(v.Index(i), depth+1, b)
			b.WriteString(",")
		}
		b.WriteString("]")
	default:
		// map, chan, func: no content-based order; constant => tie, audited
		b.WriteString("?")
	}
}

func render(k any) string {
	var b strings.Builder
	renderVal(reflect.ValueOf(k), 0, &b)
	return b.String()
}

// Order returns the entries of m in the order the plan dictates for this site.
func Order[M ~map[K]V, K comparable, V any](m M, site string) []Entry[K, V] {
	Tick()
	es := make([]Entry[K, V], 0, len(m))
	keys := make([]string, 0, len(m))
	for k := range m {
		es = append(es, Entry[K, V]{k, m})
	}
	tie := false
	fast := false
	if len(es) > 0 {
		// fast paths for the common key types (this function sits inside nested loops of the generator)
		switch any(es[0].K).(type) {
		case int:
			sort.Slice(es, func(a, b int) bool { return any(es[a].K).(int) < any(es[b].K).(int) })
			fast = true
		case string:
			sort.Slice(es, func(a, b int) bool { return any(es[a].K).(string) < any(es[b].K).(string) })
			fast = true
		}
	}
	if !fast {
		for i := range es {
			keys = append(keys, render(es[i].K))
		}
		idx := make([]int, len(es))
		for i := range idx {
			idx[i] = i
		}
		sort.SliceStable(idx, func(a, b int) bool { return keys[idx[a]] < keys[idx[b]] })
		for i := 1; i < len(idx); i++ {
			if keys[idx[i]] == keys[idx[i-1]] {
				tie = true
			}
		}
		sorted := make([]Entry[K, V], len(es))
		for i, j := range idx {
			sorted[i] = es[j]
		}
		es = sorted
	}

	mu.Lock()
	defer mu.Unlock()
	st := sites[site]
	if st == nil {
		st = &siteState{rng: NewRng(plan.Seed ^ HashString(site))}
		if sites == nil {
			sites = map[string]*siteState{}
			siteLog = map[string]int{}
			siteSeen = map[string]int{}
			tieSites = map[string]int{}
		}
		sites[site] = st
	}
	exec := st.execs
	st.execs++
	siteSeen[site]++
	if tie {
		tieSites[site]++
	}
	n := len(es)
	pol := plan.Default
	if p, ok := plan.Sites[site]; ok {
		pol = p
	}
	perm := make([]int, n)
	for i := range perm {
		perm[i] = i
	}
	switch {
	case pol == "asc" || pol == "":
	case pol == "desc":
		for i, j := 0, n-1; i < j; i, j = i+1, j-1 {
			perm[i], perm[j] = perm[j], perm[i]
		}
	case strings.HasPrefix(pol, "rot:"):
		k := 0
		fmt.Sscanf(pol, "rot:%d", &k)
		if n > 0 {
			k %= n
			for i := range perm {
				perm[i] = (i + k) % n
			}
		}
	case pol == "shuffle":
		// always draw n-1 numbers so the stream position does not depend on content
		for i := n - 1; i > 0; i-- {
			j := st.rng.Intn(i + 1)
			perm[i], perm[j] = perm[j], perm[i]
		}
	case strings.HasPrefix(pol, "swap:"):
		e, i := 0, 0
		fmt.Sscanf(pol, "swap:%d:%d", &e, &i)
		if e == exec && i >= 0 && i+1 < n {
			perm[i], perm[i+1] = perm[i+1], perm[i]
		}
	default:
		panic("simrt: unknown policy " + pol)
	}
	out := make([]Entry[K, V], n)
	for i, p := range perm {
		out[i] = es[p]
	}
	if n >= 2 {
		siteLog[site]++
		// decision log: site, execution, permutation
		h := decHash
		mix := func(x uint64) { h ^= x; h *= 1099511628211 }
		mix(HashString(site))
		mix(uint64(exec))
		for _, p := range perm {
			mix(uint64(p) + 1)
		}
		decHash = h
		decCount++
	}
	return out
}

// Decisions returns a hash of the decision log and the number of decisions
// (site executions with at least two keys).
func Decisions() (uint64, int) {
	mu.Lock()
	defer mu.Unlock()
	return decHash, decCount
}

// SiteStats returns, per site, executions and executions with >= 2 keys.
func SiteStats() (seen map[string]int, nontrivial map[string]int, ties map[string]int) {
	mu.Lock()
	defer mu.Unlock()
	seen, nontrivial, ties = map[string]int{}, map[string]int{}, map[string]int{}
	for k, v := range siteSeen {
		seen[k] = v
	}
	for k, v := range siteLog {
		nontrivial[k] = v
	}
	for k, v := range tieSites {
		ties[k] = v
	}
	return
}

// ---------------------------------------------------------------- ST

// HangPanic is thrown by Tick in the task that exhausts the budget.
type HangPanic struct{ Ticks int64 }

func (h HangPanic) Error() string { return fmt.Sprintf("simrt: tick budget exhausted at %d", h.Ticks) }

// Tick advances simulated time by one. It is on every loop head of the instrumented program, so it is kept small
// enough to be inlined: a plain increment and one comparison. The counter is deliberately not atomic: the lexer task
// and the parser task may both tick, a lost increment only makes simulated time run marginally slow, and tick totals
// are never part of an event log.
func Tick() {
	ticks++
	if ticks > budget {
		tickOver()
	}
}

// TickN charges n ticks at once (the instrumenter puts it after every string-growing assignment: n = bytes copied / 64).
func TickN(n int) {
	ticks += int64(n)
	if ticks > budget {
		tickOver()
	}
}

func tickOver() {
	t := ticks
	if atomic.CompareAndSwapInt32(&hung, 0, 1) {
		mu.Lock()
		ch := hangCh
		mu.Unlock()
		if ch != nil {
			close(ch)
		}
	}
	panic(HangPanic{t})
}

func Ticks() int64 { return ticks }

// Abort makes the next Tick of any task end the run as a hang. The engine calls it when a run exceeds its wall-clock
// limit although simulated time still advances (a loop whose iterations get ever more expensive).
func Abort() { budget = 0 }

func Hung() bool   { return atomic.LoadInt32(&hung) != 0 }

// HangCh is closed when some task exhausted the budget.
func HangCh() <-chan struct{} {
	mu.Lock()
	defer mu.Unlock()
	return hangCh
}

// ---------------------------------------------------------------- SG

var (
	tasksStarted  int64
	tasksFinished int64
	tasksPanicked int64
	lastTaskPanic atomic.Value
)

// Go starts f as a registered task. A HangPanic inside the task ends the task
// quietly (the run is already classified); any other panic is recorded and
// re-raised, as the real program would die of it.
func Go(f func()) {
	atomic.AddInt64(&tasksStarted, 1)
	go func() {
		defer func() {
			if e := recover(); e != nil {
				if _, ok := e.(HangPanic); ok {
					atomic.AddInt64(&tasksFinished, 1)
					return
				}
				atomic.AddInt64(&tasksPanicked, 1)
				lastTaskPanic.Store(fmt.Sprint(e))
				if TaskPanicHook != nil {
					TaskPanicHook(fmt.Sprint(e))
					atomic.AddInt64(&tasksFinished, 1)
					return
				}
				panic(e)
			}
			atomic.AddInt64(&tasksFinished, 1)
		}()
		f()
	}()
}

// TaskPanicHook, when set by the harness, receives panics of non-main tasks
// instead of letting them kill the process.
var TaskPanicHook func(msg string)

func TaskCounts() (started, finished, panicked int64) {
	return atomic.LoadInt64(&tasksStarted), atomic.LoadInt64(&tasksFinished), atomic.LoadInt64(&tasksPanicked)
}

// ---------------------------------------------------------------- SO

// Capture switches stdout capture on or off.
func Capture(on bool) {
	mu.Lock()
	capOn = on
	mu.Unlock()
}

// Stdout returns what was printed since the last Reset.
func Stdout() string {
	mu.Lock()
	defer mu.Unlock()
	return capBuf.String()
}

func out(s string) (int, error) {
	mu.Lock()
	if capOn {
		capBuf.WriteString(s)
		mu.Unlock()
		return len(s), nil
	}
	mu.Unlock()
	return os.Stdout.WriteString(s)
}

func Print(a ...any) (int, error)            { return out(fmt.Sprint(a...)) }
func Println(a ...any) (int, error)          { return out(fmt.Sprintln(a...)) }
func Printf(f string, a ...any) (int, error) { return out(fmt.Sprintf(f, a...)) }

type stdoutWriter struct{}

func (stdoutWriter) Write(p []byte) (int, error) { return out(string(p)) }

// StdoutWriter stands in for os.Stdout where it is passed as an io.Writer.
var StdoutWriter io.Writer = stdoutWriter{}

// ---------------------------------------------------------------- SF

// SetStage labels subsequent fs events (used by the harness, not by yaccgo).
func SetStage(s string) {
	mu.Lock()
	stage = s
	mu.Unlock()
}

func logFs(op, p, p2 string, err error) {
	e := FsEvent{Op: op, Path: p, Path2: p2, Tick: Ticks()}
	if err != nil {
		e.Err = err.Error()
	}
	mu.Lock()
	e.Stage = stage
	fsLog = append(fsLog, e)
	mu.Unlock()
}

// FsLog returns the effects recorded since the last Reset.
func FsLog() []FsEvent {
	mu.Lock()
	defer mu.Unlock()
	return append([]FsEvent(nil), fsLog...)
}

func Create(name string) (*os.File, error) {
	f, err := os.Create(name)
	logFs("create", name, "", err)
	return f, err
}

func OpenFile(name string, flag int, perm fs.FileMode) (*os.File, error) {
	f, err := os.OpenFile(name, flag, perm)
	if flag&(os.O_WRONLY|os.O_RDWR|os.O_CREATE|os.O_TRUNC|os.O_APPEND) != 0 {
		op := "openw"
		if flag&os.O_TRUNC != 0 {
			op = "create"
		}
		logFs(op, name, "", err)
	}
	return f, err
}

func WriteFile(name string, data []byte, perm fs.FileMode) error {
	err := os.WriteFile(name, data, perm)
	logFs("create", name, "", err)
	return err
}

func Remove(name string) error {
	err := os.Remove(name)
	logFs("remove", name, "", err)
	return err
}

func RemoveAll(name string) error {
	err := os.RemoveAll(name)
	logFs("remove", name, "", err)
	return err
}

func Rename(a, b string) error {
	err := os.Rename(a, b)
	logFs("rename", a, b, err)
	return err
}

func Truncate(name string, size int64) error {
	err := os.Truncate(name, size)
	logFs("truncate", name, "", err)
	return err
}

func Mkdir(name string, perm fs.FileMode) error {
	err := os.Mkdir(name, perm)
	logFs("mkdir", name, "", err)
	return err
}

func MkdirAll(name string, perm fs.FileMode) error {
	err := os.MkdirAll(name, perm)
	logFs("mkdir", name, "", err)
	return err
}

// ---------------------------------------------------------------- SX

// ExitPanic is thrown instead of leaving the process when ExitHook is set.
type ExitPanic struct{ Code int }

var ExitInProcess bool

func Exit(code int) {
	if ExitInProcess {
		panic(ExitPanic{code})
	}
	os.Exit(code)
}
