#!/usr/bin/env python3
"""Determinism self-test ("prove it first"): the same seed must give the same event logs, whatever process, GOMAXPROCS
or worker layout executes a case. usage (via ./check selftest [IDs...]): selftest.py <scratch> <verif> [IDs...]

For each property: the first N cases are executed
  - in 1 process (all cases), and again split over 4 and over 16 processes,
  - under GOMAXPROCS 1, 4 and 16,
  - each configuration REPS times,
and every case's event-log hash (decisions, outcomes, stdout hash, output hash, fs ops; no tick totals, no timings)
must be identical in all of them. A divergence is harness trouble (exit 2) - except for C14 it would itself be a finding."""
import sys, os, subprocess, json, collections, concurrent.futures

S, V = sys.argv[1], sys.argv[2]
ids = sys.argv[3:] or ["C09", "C03", "C05", "C14", "C13", "C19", "C01", "C15"]
N = {"C09": 60, "C03": 60, "C05": 40, "C14": 12, "C13": 300, "C19": 36, "C11": 30, "C12": 40, "C04": 60, "C18": 40}
REPS = int(os.environ.get("VERIF_SELFTEST_REPS", "2"))
seed = os.environ.get("VERIF_SEED", "1")

def run(prop, n, workers, w, gmp):
    env = dict(os.environ, GOMAXPROCS=str(gmp), VERIF_LOGHASH="1")
    cmd = [f"{S}/sim", "hashes", "-prop", prop, "-tier", "quick", "-seed", seed, "-audit", f"{S}/audit.json", "-scratch", S,
           "-verif", V, "-repo", f"{S}/repo", "-max-cases", str(n), "-workers", str(workers), "-w", str(w)]
    r = subprocess.run(cmd, env=env, capture_output=True, text=True)
    if r.returncode != 0:
        return None, r.stderr[-2000:]
    out = {}
    for line in r.stdout.splitlines():
        p = line.split()
        if len(p) >= 3 and p[0].isdigit():
            out[int(p[0])] = (p[1], p[2])
    return out, ""

bad = 0
total_proc = 0
for prop in ids:
    n = N.get(prop, 4)
    jobs = []
    for rep in range(REPS):
        for workers in (1, 4, 16):
            for gmp in (1, 4, 16):
                if workers == 16 and gmp == 4: continue
                for w in range(min(workers, n)):
                    jobs.append((workers, w, gmp, rep))
    seen = collections.defaultdict(set)
    with concurrent.futures.ThreadPoolExecutor(max_workers=8) as ex:
        futs = {ex.submit(run, prop, n, wk, w, gmp): (wk, w, gmp, rep) for (wk, w, gmp, rep) in jobs}
        for f in concurrent.futures.as_completed(futs):
            out, err = f.result()
            total_proc += 1
            if out is None:
                print(f"HARNESS-TROUBLE: {prop} {futs[f]}: {err}")
                sys.exit(2)
            for i, hv in out.items():
                seen[i].add(hv)
    div = {i: v for i, v in seen.items() if len(v) > 1}
    execs = len(jobs)
    print(f"selftest {prop}: {len(seen)} cases x {execs} processes (workers 1/4/16, GOMAXPROCS 1/4/16, {REPS} reps): "
          + ("all event-log hashes identical" if not div else f"DIVERGENCE in cases {sorted(div)[:10]}"))
    if div:
        bad += 1
        for i in sorted(div)[:3]:
            print("   case", i, div[i])
print(f"selftest: {total_proc} processes in total")
sys.exit(2 if bad else 0)
