// instrument: source-to-source rewriter that copies the current working tree of
// acekingke/yaccgo to a scratch directory and puts every nondeterminism source
// the properties depend on behind a seam owned by simrt (see DESIGN.md 3.1).
//
// usage: instrument -src /repo -dst /scratch/repo -simrt /verif/sim/simrt [-audit audit.json]
//
// It is generic over the AST: it does not know line numbers or today's 19 map
// ranges. What it cannot own is listed in the audit.
package main

import (
	"bytes"
	"encoding/json"
	"flag"
	"fmt"
	"go/ast"
	"go/format"
	"go/token"
	"go/types"
	"io"
	"os"
	"path/filepath"
	"sort"
	"strings"

	"golang.org/x/tools/go/ast/astutil"
	"golang.org/x/tools/go/packages"
)

type Audit struct {
	MapRangeSites []string `json:"map_range_sites"`
	TickPoints    int      `json:"tick_points"`
	CopyCharges   int      `json:"string_copy_charges"`
	GoStmts       []string `json:"go_statements_owned"`
	PrintCalls    int      `json:"stdout_calls_owned"`
	FsCalls       []string `json:"fs_calls_owned"`
	ExitCalls     int      `json:"exit_calls_owned"`
	NotOwned      []string `json:"not_owned"`
	Files         int      `json:"files"`
}

const simrtPath = "github.com/acekingke/yaccgo/simrt"

func die(f string, a ...any) {
	fmt.Fprintf(os.Stderr, "instrument: "+f+"\n", a...)
	os.Exit(2)
}

func copyFile(src, dst string) {
	if err := os.MkdirAll(filepath.Dir(dst), 0o755); err != nil {
		die("%v", err)
	}
	in, err := os.Open(src)
	if err != nil {
		die("%v", err)
	}
	defer in.Close()
	out, err := os.Create(dst)
	if err != nil {
		die("%v", err)
	}
	defer out.Close()
	if _, err := io.Copy(out, in); err != nil {
		die("%v", err)
	}
}

func main() {
	src := flag.String("src", "/repo", "source tree")
	dst := flag.String("dst", "", "destination (scratch) tree")
	simrtDir := flag.String("simrt", "", "directory holding simrt sources")
	auditPath := flag.String("audit", "", "write seam audit json here")
	withTests := flag.Bool("tests", false, "copy *_test.go files verbatim as well")
	flag.Parse()
	if *dst == "" || *simrtDir == "" {
		die("need -dst and -simrt")
	}
	absSrc, _ := filepath.Abs(*src)

	cfg := &packages.Config{
		Mode: packages.NeedName | packages.NeedFiles | packages.NeedSyntax | packages.NeedTypes |
			packages.NeedTypesInfo | packages.NeedImports | packages.NeedDeps | packages.NeedCompiledGoFiles,
		Dir:        absSrc,
		BuildFlags: []string{"-tags=verif"},
	}
	pkgs, err := packages.Load(cfg, "./...")
	if err != nil {
		die("load: %v", err)
	}
	nerr := 0
	for _, p := range pkgs {
		for _, e := range p.Errors {
			fmt.Fprintln(os.Stderr, "instrument: package error:", e)
			nerr++
		}
	}
	if nerr > 0 {
		die("the tree does not type-check (%d errors)", nerr)
	}

	audit := &Audit{}
	siteCount := map[string]int{}

	// copy everything that is not a Go source of a loaded package: go.mod, go.sum, templates, examples, docs
	filepath.Walk(absSrc, func(path string, info os.FileInfo, err error) error {
		if err != nil {
			return nil
		}
		rel, _ := filepath.Rel(absSrc, path)
		if info.IsDir() {
			if info.Name() == ".git" || rel == "simrt" || rel == "verifsim" {
				return filepath.SkipDir
			}
			return nil
		}
		if !info.Mode().IsRegular() {
			return nil
		}
		if strings.HasSuffix(path, ".go") {
			if strings.HasSuffix(path, "_test.go") && *withTests {
				copyFile(path, filepath.Join(*dst, rel))
			}
			return nil
		}
		if info.Size() > 1<<20 { // gif, png: not needed
			return nil
		}
		copyFile(path, filepath.Join(*dst, rel))
		return nil
	})

	for _, p := range pkgs {
		for _, f := range p.Syntax {
			fn := p.Fset.Position(f.Package).Filename
			rel, err := filepath.Rel(absSrc, fn)
			if err != nil || strings.HasPrefix(rel, "..") {
				continue
			}
			changed := rewriteFile(p, f, audit, siteCount)
			if changed {
				astutil.AddImport(p.Fset, f, simrtPath)
			}
			// drop imports that became unused (fmt, os)
			pruneImports(p.Fset, f)
			var buf bytes.Buffer
			if err := format.Node(&buf, p.Fset, f); err != nil {
				die("format %s: %v", rel, err)
			}
			out := filepath.Join(*dst, rel)
			os.MkdirAll(filepath.Dir(out), 0o755)
			if err := os.WriteFile(out, buf.Bytes(), 0o644); err != nil {
				die("%v", err)
			}
			audit.Files++
		}
	}
	// simrt package
	ents, err := os.ReadDir(*simrtDir)
	if err != nil {
		die("%v", err)
	}
	for _, e := range ents {
		if strings.HasSuffix(e.Name(), ".go") {
			copyFile(filepath.Join(*simrtDir, e.Name()), filepath.Join(*dst, "simrt", e.Name()))
		}
	}
	sort.Strings(audit.MapRangeSites)
	sort.Strings(audit.NotOwned)
	if *auditPath != "" {
		b, _ := json.MarshalIndent(audit, "", " ")
		os.WriteFile(*auditPath, b, 0o644)
	}
	fmt.Fprintf(os.Stderr, "instrument: %d files, %d map-range sites, %d tick points, %d not-owned constructs\n",
		audit.Files, len(audit.MapRangeSites), audit.TickPoints, len(audit.NotOwned))
}

func sel(x, s string) *ast.SelectorExpr {
	return &ast.SelectorExpr{X: ast.NewIdent(x), Sel: ast.NewIdent(s)}
}

func tickStmt() ast.Stmt {
	return &ast.ExprStmt{X: &ast.CallExpr{Fun: sel("simrt", "Tick")}}
}

func isBlank(x ast.Expr) bool {
	if x == nil {
		return true
	}
	id, ok := x.(*ast.Ident)
	return ok && id.Name == "_"
}

func recvName(fd *ast.FuncDecl) string {
	if fd.Recv == nil || len(fd.Recv.List) == 0 {
		return ""
	}
	t := fd.Recv.List[0].Type
	if s, ok := t.(*ast.StarExpr); ok {
		t = s.X
	}
	if id, ok := t.(*ast.Ident); ok {
		return id.Name
	}
	return "?"
}

// pkgFunc reports whether call is pkgpath.name(...) for an imported package.
func pkgFunc(info *types.Info, fun ast.Expr) (pkgPath, name string, ok bool) {
	se, isSel := fun.(*ast.SelectorExpr)
	if !isSel {
		return "", "", false
	}
	id, isId := se.X.(*ast.Ident)
	if !isId {
		return "", "", false
	}
	pn, isPkg := info.Uses[id].(*types.PkgName)
	if !isPkg {
		return "", "", false
	}
	return pn.Imported().Path(), se.Sel.Name, true
}

var fsFuncs = map[string]bool{"Create": true, "OpenFile": true, "WriteFile": true, "Remove": true, "RemoveAll": true,
	"Rename": true, "Truncate": true, "Mkdir": true, "MkdirAll": true}

func rewriteFile(p *packages.Package, f *ast.File, audit *Audit, siteCount map[string]int) bool {
	changed := false
	info := p.TypesInfo
	var funcStack []string
	pos := func(n ast.Node) string {
		ps := p.Fset.Position(n.Pos())
		return fmt.Sprintf("%s:%d", filepath.Base(ps.Filename), ps.Line)
	}
	curFunc := func() string {
		if len(funcStack) == 0 {
			return "<file>"
		}
		return funcStack[len(funcStack)-1]
	}
	astutil.Apply(f, func(c *astutil.Cursor) bool {
		switch n := c.Node().(type) {
		case *ast.FuncDecl:
			name := n.Name.Name
			if r := recvName(n); r != "" {
				name = "(" + r + ")." + name
			}
			funcStack = append(funcStack, p.Name+"."+name)
		}
		return true
	}, func(c *astutil.Cursor) bool {
		switch n := c.Node().(type) {
		case *ast.FuncDecl:
			if n.Body != nil {
				n.Body.List = append([]ast.Stmt{tickStmt()}, n.Body.List...)
				audit.TickPoints++
				changed = true
			}
			funcStack = funcStack[:len(funcStack)-1]
		case *ast.FuncLit:
			n.Body.List = append([]ast.Stmt{tickStmt()}, n.Body.List...)
			audit.TickPoints++
			changed = true
		case *ast.ForStmt:
			n.Body.List = append([]ast.Stmt{tickStmt()}, n.Body.List...)
			audit.TickPoints++
			changed = true
		case *ast.AssignStmt:
			// s += t (or s = s + t) on a string copies all of s: charge simulated time for the copy, one tick per 64
			// bytes, so that a loop that keeps growing a string cannot outlast its tick budget by getting slower
			if x := grownString(info, n); x != nil {
				if _, inList := c.Parent().(*ast.BlockStmt); inList || isCaseParent(c.Parent()) {
					c.InsertAfter(&ast.ExprStmt{X: &ast.CallExpr{Fun: sel("simrt", "TickN"), Args: []ast.Expr{
						&ast.BinaryExpr{X: &ast.CallExpr{Fun: ast.NewIdent("len"), Args: []ast.Expr{x}}, Op: token.SHR, Y: &ast.BasicLit{Kind: token.INT, Value: "6"}}}}})
					audit.CopyCharges++
					changed = true
				}
			}
		case *ast.LabeledStmt:
			switch n.Stmt.(type) {
			case *ast.ForStmt, *ast.RangeStmt, *ast.SwitchStmt, *ast.TypeSwitchStmt, *ast.SelectStmt:
				// break/continue target: the loop body carries its own tick
			default:
				// goto target: L: S  ==>  L: simrt.Tick(); S
				if _, inList := c.Parent().(*ast.BlockStmt); inList || isCaseParent(c.Parent()) {
					inner := n.Stmt
					n.Stmt = tickStmt()
					c.InsertAfter(inner)
					audit.TickPoints++
					changed = true
				} else {
					audit.NotOwned = append(audit.NotOwned, "label outside block (no tick): "+pos(n))
				}
			}
		case *ast.RangeStmt:
			t := info.TypeOf(n.X)
			isMap := false
			if t != nil {
				_, isMap = t.Underlying().(*types.Map)
			}
			if !isMap {
				n.Body.List = append([]ast.Stmt{tickStmt()}, n.Body.List...)
				audit.TickPoints++
				changed = true
				if t != nil {
					if _, isChan := t.Underlying().(*types.Chan); isChan {
						// fine: blocking receive, owned by the rendezvous
					}
				}
				return true
			}
			base := fmt.Sprintf("%s: %s", curFunc(), types.ExprString(n.X))
			siteCount[base]++
			site := base
			if siteCount[base] > 1 {
				site = fmt.Sprintf("%s #%d", base, siteCount[base])
			}
			audit.MapRangeSites = append(audit.MapRangeSites, site)
			rewriteMapRange(n, site)
			changed = true
		case *ast.GoStmt:
			call := n.Call
			if len(call.Args) == 0 && !call.Ellipsis.IsValid() {
				if _, isLit := call.Fun.(*ast.FuncLit); isLit || true {
					// go f()  ==>  simrt.Go(f)   (method values bind their receiver now, as go does)
					c.Replace(&ast.ExprStmt{X: &ast.CallExpr{Fun: sel("simrt", "Go"), Args: []ast.Expr{call.Fun}}})
					audit.GoStmts = append(audit.GoStmts, curFunc()+": go "+types.ExprString(call.Fun)+"()")
					changed = true
				}
			} else {
				audit.NotOwned = append(audit.NotOwned, "go statement with arguments: "+pos(n))
			}
		case *ast.SelectStmt:
			if len(n.Body.List) > 1 {
				audit.NotOwned = append(audit.NotOwned, "select with several cases: "+pos(n))
			}
		case *ast.CallExpr:
			pkg, name, ok := pkgFunc(info, n.Fun)
			if !ok {
				return true
			}
			switch pkg {
			case "fmt":
				switch name {
				case "Print", "Println", "Printf":
					n.Fun = sel("simrt", name)
					audit.PrintCalls++
					changed = true
				case "Fprint", "Fprintln", "Fprintf":
					if len(n.Args) > 0 {
						if p2, n2, ok2 := pkgFunc(info, n.Args[0]); ok2 && p2 == "os" && n2 == "Stdout" {
							n.Args[0] = sel("simrt", "StdoutWriter")
							audit.PrintCalls++
							changed = true
						}
					}
				}
			case "os":
				if fsFuncs[name] {
					n.Fun = sel("simrt", name)
					audit.FsCalls = append(audit.FsCalls, curFunc()+": os."+name)
					changed = true
				} else if name == "Exit" {
					n.Fun = sel("simrt", "Exit")
					audit.ExitCalls++
					changed = true
				} else if name == "Getenv" || name == "LookupEnv" || name == "Environ" {
					audit.NotOwned = append(audit.NotOwned, "environment read: "+pos(n))
				}
			case "io/ioutil":
				if name == "WriteFile" {
					n.Fun = sel("simrt", name)
					audit.FsCalls = append(audit.FsCalls, curFunc()+": ioutil."+name)
					changed = true
				}
			case "time":
				audit.NotOwned = append(audit.NotOwned, "time."+name+": "+pos(n))
			case "math/rand", "math/rand/v2", "crypto/rand":
				audit.NotOwned = append(audit.NotOwned, pkg+"."+name+": "+pos(n))
			case "maps":
				if name == "Keys" || name == "Values" || name == "All" {
					audit.NotOwned = append(audit.NotOwned, "maps."+name+": "+pos(n))
				}
			case "reflect":
				audit.NotOwned = append(audit.NotOwned, "reflect."+name+": "+pos(n))
			case "os/exec":
				audit.NotOwned = append(audit.NotOwned, "subprocess exec."+name+": "+pos(n))
			}
		case *ast.SelectorExpr:
			// sync.Map.Range and friends
			if s := info.Selections[n]; s != nil && n.Sel.Name == "Range" {
				if named, ok := derefNamed(s.Recv()); ok && named.Obj().Pkg() != nil && named.Obj().Pkg().Path() == "sync" {
					audit.NotOwned = append(audit.NotOwned, "sync.Map.Range: "+pos(n))
				}
			}
		}
		return true
	})
	return changed
}

// grownString returns the (side-effect free) string operand that the statement grows, or nil.
func grownString(info *types.Info, n *ast.AssignStmt) ast.Expr {
	if len(n.Lhs) != 1 || len(n.Rhs) != 1 {
		return nil
	}
	x := n.Lhs[0]
	pure := func(e ast.Expr) bool {
		for {
			switch v := e.(type) {
			case *ast.Ident:
				return v.Name != "_"
			case *ast.SelectorExpr:
				e = v.X
			default:
				return false
			}
		}
	}
	if !pure(x) {
		return nil
	}
	t := info.TypeOf(x)
	if t == nil {
		return nil
	}
	if b, ok := t.Underlying().(*types.Basic); !ok || b.Info()&types.IsString == 0 {
		return nil
	}
	switch n.Tok {
	case token.ADD_ASSIGN:
		return x
	case token.ASSIGN:
		// s = s + ...
		e := n.Rhs[0]
		for {
			be, ok := e.(*ast.BinaryExpr)
			if !ok || be.Op != token.ADD {
				break
			}
			e = be.X
		}
		if e != n.Rhs[0] && types.ExprString(e) == types.ExprString(x) {
			return x
		}
	}
	return nil
}

func derefNamed(t types.Type) (*types.Named, bool) {
	if p, ok := t.(*types.Pointer); ok {
		t = p.Elem()
	}
	n, ok := t.(*types.Named)
	return n, ok
}

func isCaseParent(n ast.Node) bool {
	switch n.(type) {
	case *ast.CaseClause, *ast.CommClause:
		return true
	}
	return false
}

// for k, v := range m { body }
//
//	==>
//
// for _, simE__ := range simrt.Order(m, site) { k := simE__.K; v, simOk__ := simE__.Get(); if !simOk__ { continue }; body }
func rewriteMapRange(rs *ast.RangeStmt, site string) {
	call := &ast.CallExpr{Fun: sel("simrt", "Order"),
		Args: []ast.Expr{rs.X, &ast.BasicLit{Kind: token.STRING, Value: fmt.Sprintf("%q", site)}}}
	e := ast.NewIdent("simE__")
	okId := ast.NewIdent("simOk__")
	var pre []ast.Stmt
	pre = append(pre, tickStmt())
	tok := rs.Tok
	if tok == token.ILLEGAL { // "for range m"
		tok = token.DEFINE
	}
	useBlank := func(x ast.Expr) ast.Stmt {
		return &ast.AssignStmt{Lhs: []ast.Expr{ast.NewIdent("_")}, Tok: token.ASSIGN, Rhs: []ast.Expr{x}}
	}
	if tok == token.DEFINE {
		if !isBlank(rs.Key) {
			pre = append(pre, &ast.AssignStmt{Lhs: []ast.Expr{rs.Key}, Tok: token.DEFINE, Rhs: []ast.Expr{&ast.SelectorExpr{X: e, Sel: ast.NewIdent("K")}}},
				useBlank(rs.Key))
		}
		v := rs.Value
		if isBlank(v) {
			v = ast.NewIdent("_")
		}
		pre = append(pre,
			&ast.AssignStmt{Lhs: []ast.Expr{v, okId}, Tok: token.DEFINE, Rhs: []ast.Expr{&ast.CallExpr{Fun: &ast.SelectorExpr{X: e, Sel: ast.NewIdent("Get")}}}},
			&ast.IfStmt{Cond: &ast.UnaryExpr{Op: token.NOT, X: okId}, Body: &ast.BlockStmt{List: []ast.Stmt{&ast.BranchStmt{Tok: token.CONTINUE}}}})
		if !isBlank(rs.Value) {
			pre = append(pre, useBlank(rs.Value))
		}
	} else { // '=' form: assign to existing variables
		tmpV := ast.NewIdent("simV__")
		pre = append(pre,
			&ast.AssignStmt{Lhs: []ast.Expr{tmpV, okId}, Tok: token.DEFINE, Rhs: []ast.Expr{&ast.CallExpr{Fun: &ast.SelectorExpr{X: e, Sel: ast.NewIdent("Get")}}}},
			&ast.IfStmt{Cond: &ast.UnaryExpr{Op: token.NOT, X: okId}, Body: &ast.BlockStmt{List: []ast.Stmt{&ast.BranchStmt{Tok: token.CONTINUE}}}},
			useBlank(tmpV))
		if !isBlank(rs.Key) {
			pre = append(pre, &ast.AssignStmt{Lhs: []ast.Expr{rs.Key}, Tok: token.ASSIGN, Rhs: []ast.Expr{&ast.SelectorExpr{X: e, Sel: ast.NewIdent("K")}}})
		}
		if !isBlank(rs.Value) {
			pre = append(pre, &ast.AssignStmt{Lhs: []ast.Expr{rs.Value}, Tok: token.ASSIGN, Rhs: []ast.Expr{tmpV}})
		}
	}
	rs.Key, rs.Value, rs.Tok = ast.NewIdent("_"), e, token.DEFINE
	rs.X = call
	rs.Body.List = append(pre, rs.Body.List...)
}

// pruneImports removes imports of fmt / os / ioutil that the rewrite left unused.
func pruneImports(fset *token.FileSet, f *ast.File) {
	for _, path := range []string{"fmt", "os", "io/ioutil"} {
		if !astutil.UsesImport(f, path) {
			// only delete unnamed, non-blank imports
			for _, im := range f.Imports {
				if strings.Trim(im.Path.Value, `"`) == path && im.Name == nil {
					astutil.DeleteImport(fset, f, path)
				}
			}
		}
	}
}
