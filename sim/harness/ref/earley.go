package ref

import (
	"github.com/acekingke/yaccgo/verifsim/rng"
)

// ---------------------------------------------------------------- Earley recogniser

type eItem struct {
	R, D, Origin int
}

// Recognise runs Earley's algorithm on toks (reference symbol ids of terminals,
// or -1 for a token that is no terminal of the grammar). It returns whether
// toks is a sentence and BadPos: the index of the first token that no sentence
// continues with (len(toks) = the end marker; -1 if toks is a sentence).
// BadPos is exact when every nonterminal is productive.
func (g *Grammar) Recognise(toks []int) (bool, int) {
	n := len(toks)
	sets := make([][]eItem, n+1)
	seen := make([]map[eItem]bool, n+1)
	for i := range seen {
		seen[i] = map[eItem]bool{}
	}
	add := func(i int, it eItem) {
		if !seen[i][it] {
			seen[i][it] = true
			sets[i] = append(sets[i], it)
		}
	}
	add(0, eItem{0, 0, 0})
	for i := 0; i <= n; i++ {
		for k := 0; k < len(sets[i]); k++ {
			it := sets[i][k]
			r := g.Rules[it.R]
			if it.D < len(r.R) {
				x := r.R[it.D]
				if g.IsNT[x] {
					for _, ri := range g.ByLHS[x] {
						add(i, eItem{ri, 0, i})
					}
					if g.Nullable[x] {
						add(i, eItem{it.R, it.D + 1, it.Origin})
					}
				} else if i < n && toks[i] == x {
					add(i+1, eItem{it.R, it.D + 1, it.Origin})
				}
			} else {
				// completion
				for _, p := range sets[it.Origin] {
					pr := g.Rules[p.R]
					if p.D < len(pr.R) && pr.R[p.D] == r.L {
						add(i, eItem{p.R, p.D + 1, p.Origin})
					}
				}
			}
		}
		if i < n && len(sets[i+1]) == 0 {
			// complete the scan step for set i before deciding: items were added while iterating, the loop above saw them all
			return false, i
		}
	}
	if seen[n][eItem{0, 1, 0}] {
		return true, -1
	}
	return false, n
}

// ---------------------------------------------------------------- sentence generation

// MinLen computes the minimal yield length of every symbol (productive ones).
func (g *Grammar) MinLen() []int {
	const inf = 1 << 30
	ml := make([]int, g.NSym())
	for i := range ml {
		if g.IsNT[i] {
			ml[i] = inf
		} else {
			ml[i] = 1
		}
	}
	for ch := true; ch; {
		ch = false
		for _, r := range g.Rules {
			sum := 0
			for _, s := range r.R {
				if ml[s] >= inf {
					sum = inf
					break
				}
				sum += ml[s]
			}
			if sum < ml[r.L] {
				ml[r.L] = sum
				ch = true
			}
		}
	}
	return ml
}

// RandomSentence derives a random sentence from the start symbol; budget
// bounds the length (the derivation switches to shortest expansions when the
// budget is used up). Returns terminal symbol ids.
func (g *Grammar) RandomSentence(r *rng.R, budget int) []int {
	ml := g.MinLen()
	const inf = 1 << 30
	// minimal rule per nonterminal
	ruleLen := func(ri int) int {
		sum := 0
		for _, s := range g.Rules[ri].R {
			if ml[s] >= inf {
				return inf
			}
			sum += ml[s]
		}
		return sum
	}
	wf := g.wellFoundedRules()
	var out []int
	var expand func(x int, depth int)
	steps := 0
	expand = func(x int, depth int) {
		steps++
		if !g.IsNT[x] {
			out = append(out, x)
			return
		}
		cands := g.ByLHS[x]
		var ok []int
		for _, ri := range cands {
			if ruleLen(ri) < inf {
				ok = append(ok, ri)
			}
		}
		if len(ok) == 0 {
			return
		}
		choice := ok[r.Intn(len(ok))]
		if len(out)+ml[x] > budget || depth > 40 || steps > 20*budget+200 {
			// well-founded expansion: the rule that first made x productive
			choice = wf[x]
		}
		for _, s := range g.Rules[choice].R {
			expand(s, depth+1)
		}
	}
	expand(g.Start, 0)
	return out
}

// AllStrings enumerates every string over terms up to length maxLen (inclusive), calling f.
func AllStrings(terms []int, maxLen int, f func([]int) bool) {
	cur := make([]int, 0, maxLen)
	var rec func() bool
	rec = func() bool {
		if !f(cur) {
			return false
		}
		if len(cur) == maxLen {
			return true
		}
		for _, t := range terms {
			cur = append(cur, t)
			if !rec() {
				return false
			}
			cur = cur[:len(cur)-1]
		}
		return true
	}
	rec()
}

// wellFoundedRules picks, per productive nonterminal, a rule all of whose
// symbols became productive in an earlier round: expanding only these rules
// always terminates.
func (g *Grammar) wellFoundedRules() []int {
	wf := make([]int, g.NSym())
	done := make([]bool, g.NSym())
	for i := range wf {
		wf[i] = -1
		done[i] = !g.IsNT[i]
	}
	for ch := true; ch; {
		ch = false
		var newly []int
		for ri, r := range g.Rules {
			if done[r.L] || wf[r.L] >= 0 {
				continue
			}
			ok := true
			for _, s := range r.R {
				if !done[s] {
					ok = false
				}
			}
			if ok {
				wf[r.L] = ri
				newly = append(newly, r.L)
				ch = true
			}
		}
		for _, x := range newly {
			done[x] = true
		}
	}
	return wf
}

// LongSentence derives a sentence of roughly `budget` tokens by preferring, while the budget lasts, rules that contain
// nonterminals (so recursive grammars give deep derivations: long lists, deep nesting) and finishing with the
// well-founded rules. Unlike RandomSentence it does not stop early with probability 1/2 per step.
func (g *Grammar) LongSentence(r *rng.R, budget int) []int {
	wf := g.wellFoundedRules()
	ml := g.MinLen()
	const inf = 1 << 30
	var out []int
	steps := 0
	var expand func(x int)
	expand = func(x int) {
		steps++
		if !g.IsNT[x] {
			out = append(out, x)
			return
		}
		choice := wf[x]
		if choice < 0 {
			return
		}
		if len(out) < budget && steps < 8*budget+1000 {
			var growing, any []int
			for _, ri := range g.ByLHS[x] {
				ok, hasNT := true, false
				for _, s := range g.Rules[ri].R {
					if ml[s] >= inf {
						ok = false
					}
					if g.IsNT[s] {
						hasNT = true
					}
				}
				if !ok {
					continue
				}
				any = append(any, ri)
				if hasNT {
					growing = append(growing, ri)
				}
			}
			if len(growing) > 0 && r.Intn(10) < 9 {
				choice = growing[r.Intn(len(growing))]
			} else if len(any) > 0 {
				choice = any[r.Intn(len(any))]
			}
		}
		for _, s := range g.Rules[choice].R {
			expand(s)
		}
	}
	expand(g.Start)
	return out
}
