package ref

import (
	"fmt"

	"github.com/acekingke/yaccgo/verifsim/rng"
	"github.com/acekingke/yaccgo/verifsim/wl"
)

// Precedence-climbing reference for operator tables (family F3): it decides, from the declarations alone, how an
// expression groups, or that it is a syntax error (%nonassoc chain). Written from the yacc rules for resolving
// shift/reduce conflicts by precedence, not from any table.

type opInfo struct {
	level int
	assoc int
}

type PrecRef struct {
	ot     *wl.OpTable
	binary map[int]opInfo // terminal index -> level/assoc as a binary operator (token precedence)
	prefix map[int]opInfo // terminal index -> precedence of the prefix RULE (its %prec token, or the operator itself)
}

func NewPrecRef(spec *wl.Spec) *PrecRef {
	ot := spec.OpTab
	p := &PrecRef{ot: ot, binary: map[int]opInfo{}, prefix: map[int]opInfo{}}
	lvl := map[int]opInfo{}
	for li, l := range spec.Levels {
		for _, t := range l.Terms {
			lvl[t] = opInfo{li + 1, l.Assoc}
		}
	}
	for _, b := range ot.Binary {
		p.binary[b] = lvl[b]
	}
	for i, op := range ot.Prefix {
		if ot.PrefixAs[i] >= 0 {
			p.prefix[op] = lvl[ot.PrefixAs[i]]
		} else {
			p.prefix[op] = lvl[op]
		}
	}
	return p
}

type precParser struct {
	p    *PrecRef
	toks []Tok
	pos  int
}

type precErr struct{ pos int }

func (pp *precParser) peek() int {
	if pp.pos < len(pp.toks) {
		return pp.toks[pp.pos].Term
	}
	return -1
}

// Parse returns the fully parenthesised string the declarations demand, or ok=false and the index of the token at
// which a yacc parser built from these declarations reports the syntax error.
func (p *PrecRef) Parse(toks []Tok) (s string, ok bool, errPos int) {
	pp := &precParser{p: p, toks: toks}
	defer func() {
		if e := recover(); e != nil {
			if pe, is := e.(precErr); is {
				s, ok, errPos = "", false, pe.pos
				return
			}
			panic(e)
		}
	}()
	s = pp.expr(0)
	if pp.pos != len(toks) {
		panic(precErr{pp.pos})
	}
	return s, true, -1
}

func (pp *precParser) expr(min int) string {
	lhs := pp.primary()
	for {
		t := pp.peek()
		bi, isBin := pp.p.binary[t]
		if !isBin || bi.level < min {
			return lhs
		}
		pp.pos++
		next := bi.level + 1
		if bi.assoc == wl.AssocRight {
			next = bi.level
		}
		rhs := pp.expr(next)
		lhs = "(" + lhs + pp.p.ot.BinarySep(t) + rhs + ")"
		if bi.assoc == wl.AssocNon {
			if b2, is := pp.p.binary[pp.peek()]; is && b2.level == bi.level {
				panic(precErr{pp.pos})
			}
		}
	}
}

func (pp *precParser) primary() string {
	t := pp.peek()
	switch {
	case t == pp.p.ot.Num:
		v := pp.toks[pp.pos].V
		pp.pos++
		return fmt.Sprint("t", v)
	case pp.p.ot.LP >= 0 && t == pp.p.ot.LP:
		pp.pos++
		s := pp.expr(0)
		if pp.peek() != pp.p.ot.RP {
			panic(precErr{pp.pos})
		}
		pp.pos++
		return s
	}
	if pi, isPre := pp.p.prefix[t]; isPre {
		pp.pos++
		next := pi.level + 1
		if pi.assoc == wl.AssocRight {
			next = pi.level
		}
		operand := pp.expr(next)
		if pi.assoc == wl.AssocNon {
			if b2, is := pp.p.binary[pp.peek()]; is && b2.level == pi.level {
				panic(precErr{pp.pos})
			}
		}
		return fmt.Sprintf("(p%d %s)", t, operand)
	}
	panic(precErr{pp.pos})
}

// RandomExpr produces the token string of a random expression of the operator table (a sentence of the ambiguous grammar).
func (p *PrecRef) RandomExpr(r *rng.R, depth int) []Tok {
	var out []Tok
	var gen func(d int)
	gen = func(d int) {
		k := r.Intn(10)
		switch {
		case d <= 0 || k < 3:
			out = append(out, Tok{Term: p.ot.Num, V: r.Range(1, 99)})
		case k < 8 && len(p.ot.Binary) > 0:
			gen(d - 1)
			out = append(out, Tok{Term: rng.Pick(r, p.ot.Binary)})
			gen(d - 1)
		case k == 8 && len(p.ot.Prefix) > 0:
			out = append(out, Tok{Term: rng.Pick(r, p.ot.Prefix)})
			gen(d - 1)
		case p.ot.LP >= 0:
			out = append(out, Tok{Term: p.ot.LP})
			gen(d - 1)
			out = append(out, Tok{Term: p.ot.RP})
		default:
			out = append(out, Tok{Term: p.ot.Num, V: r.Range(1, 99)})
		}
	}
	gen(depth)
	return out
}
