package ref

import (
	"fmt"

	"github.com/acekingke/yaccgo/verifsim/wl"
)

// RecEvent is what a semantic action records: the rule number (yaccgo's
// numbering: spec rule index + 1) and how many tokens the parser had fetched
// from the lexer at that moment (the lookahead included).
type RecEvent struct {
	Rule    int `json:"r"`
	Fetched int `json:"f"`
}

// Tok is one input token: spec terminal index and the value the lexer attaches.
type Tok struct {
	Term int `json:"t"`
	V    int `json:"v"`
}

type stackEnt struct {
	sym int
	val any
}

func (g *Grammar) tokenValue(t Tok) any {
	tag := g.Spec.Terms[t.Term].Tag
	switch g.Spec.FieldType(tag) {
	case "int":
		return t.V
	case "string":
		return fmt.Sprint("t", t.V)
	}
	return nil
}

func (g *Grammar) eval(e *wl.Expr, rhs []stackEnt) (any, error) {
	switch e.Op {
	case 'k', 'g':
		return e.K, nil
	case 'q':
		return e.S, nil
	case 'd':
		if e.K < 1 || e.K > len(rhs) {
			return nil, fmt.Errorf("$%d out of range", e.K)
		}
		if rhs[e.K-1].val == nil {
			return nil, fmt.Errorf("$%d has no value", e.K)
		}
		return rhs[e.K-1].val, nil
	case '+', '*':
		a, err := g.eval(e.L, rhs)
		if err != nil {
			return nil, err
		}
		b, err := g.eval(e.R, rhs)
		if err != nil {
			return nil, err
		}
		x, ok1 := a.(int)
		y, ok2 := b.(int)
		if !ok1 || !ok2 {
			return nil, fmt.Errorf("arithmetic on non-int")
		}
		if e.Op == '+' {
			return x + y, nil
		}
		return x * y, nil
	case 'c':
		s := ""
		for _, p := range e.Parts {
			v, err := g.eval(p, rhs)
			if err != nil {
				return nil, err
			}
			s += fmt.Sprint(v)
		}
		return s, nil
	}
	return nil, fmt.Errorf("bad expr op %c", e.Op)
}

// Derivation replays the recorded reductions of an ACCEPTED parse against the
// grammar as specified: each reduction (r, f) must find rhs(r) on top of the
// symbol stack after exactly f-1 tokens were shifted; at the end the stack is
// [start] and all tokens are consumed. Read backwards this is a rightmost
// derivation of exactly toks. It also evaluates the actions bottom-up and
// returns the start symbol's value.
func (g *Grammar) Derivation(toks []Tok, recs []RecEvent, totalFetched int) (any, error) {
	var st []stackEnt
	shifted := 0
	g.UsedUnassigned = false
	for i, t := range toks {
		if t.Term < 0 || t.Term >= len(g.Spec.Terms) {
			return nil, fmt.Errorf("token #%d is no terminal of the grammar, yet the input was accepted", i)
		}
	}
	shiftTo := func(n int) error {
		if n > len(toks) {
			return fmt.Errorf("reduction after %d shifted tokens but the input has %d", n, len(toks))
		}
		for shifted < n {
			st = append(st, stackEnt{g.T(toks[shifted].Term), g.tokenValue(toks[shifted])})
			shifted++
		}
		return nil
	}
	for i, ev := range recs {
		if ev.Rule < 1 || ev.Rule >= len(g.Rules) {
			return nil, fmt.Errorf("event %d: rule %d does not exist", i, ev.Rule)
		}
		if ev.Fetched-1 < shifted {
			return nil, fmt.Errorf("event %d: reduction by rule %d with %d tokens shifted, but %d were already shifted", i, ev.Rule, ev.Fetched-1, shifted)
		}
		if err := shiftTo(ev.Fetched - 1); err != nil {
			return nil, fmt.Errorf("event %d: %v", i, err)
		}
		r := g.Rules[ev.Rule]
		n := len(r.R)
		if len(st) < n {
			return nil, fmt.Errorf("event %d: rule %d (%s) needs %d symbols, stack has %d", i, ev.Rule, g.Spec.RuleString(ev.Rule-1), n, len(st))
		}
		rhs := st[len(st)-n:]
		for k := 0; k < n; k++ {
			if rhs[k].sym != r.R[k] {
				return nil, fmt.Errorf("event %d: rule %d (%s): stack has %s where %s is needed", i, ev.Rule, g.Spec.RuleString(ev.Rule-1), g.Names[rhs[k].sym], g.Names[r.R[k]])
			}
		}
		var val any
		sr := g.Spec.Rules[ev.Rule-1]
		if sr.Act == nil && g.Spec.NTs[sr.L].Tag != "" {
			g.UsedUnassigned = true
		}
		tag := g.Spec.NTs[sr.L].Tag
		if tag != "" {
			switch g.Spec.FieldType(tag) {
			case "int":
				val = 0
			case "string":
				val = ""
			}
			if sr.Act != nil {
				v, err := g.eval(sr.Act, rhs)
				if err != nil {
					return nil, fmt.Errorf("event %d: %v", i, err)
				}
				if iv, ok := v.(int); ok && g.Spec.FieldType(tag) == "int" {
					v = iv % wl.Modulus
				}
				val = v
			}
		}
		st = append(st[:len(st)-n], stackEnt{r.L, val})
	}
	if err := shiftTo(len(toks)); err != nil {
		return nil, err
	}
	if shifted != len(toks) {
		return nil, fmt.Errorf("accepted with %d of %d tokens consumed", shifted, len(toks))
	}
	if len(st) != 1 || st[0].sym != g.Start {
		var names []string
		for _, e := range st {
			names = append(names, g.Names[e.sym])
		}
		return nil, fmt.Errorf("accepted with stack %v instead of [%s]", names, g.Names[g.Start])
	}
	if totalFetched != len(toks)+1 {
		return nil, fmt.Errorf("accepted after fetching %d tokens; the input has %d and one end marker", totalFetched, len(toks))
	}
	return st[0].val, nil
}
