// Package ref: reference models, written from the definitions and not derived
// from yaccgo code. Symbols are ints: 0 = $accept, 1 = $end, then the spec's
// terminals (2+i), then its nonterminals.
package ref

import (
	"fmt"
	"sort"
	"strings"

	"github.com/acekingke/yaccgo/verifsim/wl"
)

type Rule struct {
	L    int
	R    []int
	Prec int // precedence level of the rule (0 = none)
	// Assoc of the rule's precedence symbol
	Assoc int
}

type Grammar struct {
	Spec   *wl.Spec
	Names  []string // internal (yaccgo) symbol names; 0 "$accept", 1 "$"
	IsNT   []bool
	NTerm  int    // number of spec terminals
	Rules  []Rule // rule 0: $accept -> start
	Start  int
	TLevel []int // per symbol: precedence level (0 none) for terminals
	TAssoc []int
	ByLHS  map[int][]int

	Nullable []bool
	First    []map[int]bool
	Prod     []bool // productive

	// UsedUnassigned is set by Derivation when a reduction by a rule without a $$ assignment (but with a tagged
	// left-hand side) took part: its value is the target language's zero/undefined value, which differs between Go and TypeScript
	UsedUnassigned bool
}

func (g *Grammar) T(i int) int  { return 2 + i }
func (g *Grammar) NT(i int) int { return 2 + g.NTerm + i }
func (g *Grammar) Sym(x wl.Sym) int {
	if x.NT {
		return g.NT(x.I)
	}
	return g.T(x.I)
}
func (g *Grammar) NSym() int { return len(g.Names) }

// New builds the reference grammar of a spec.
func New(s *wl.Spec) *Grammar {
	g := &Grammar{Spec: s, NTerm: len(s.Terms)}
	g.Names = []string{"$accept", "$"}
	g.IsNT = []bool{true, false}
	for _, t := range s.Terms {
		g.Names = append(g.Names, t.YName())
		g.IsNT = append(g.IsNT, false)
	}
	for _, n := range s.NTs {
		g.Names = append(g.Names, n.Name)
		g.IsNT = append(g.IsNT, true)
	}
	g.TLevel = make([]int, g.NSym())
	g.TAssoc = make([]int, g.NSym())
	for li, lv := range s.Levels {
		for _, t := range lv.Terms {
			g.TLevel[g.T(t)] = li + 1
			g.TAssoc[g.T(t)] = lv.Assoc
		}
	}
	g.Start = g.NT(s.Start)
	g.Rules = append(g.Rules, Rule{L: 0, R: []int{g.Start}})
	for _, r := range s.Rules {
		rr := Rule{L: g.NT(r.L)}
		for _, x := range r.R {
			rr.R = append(rr.R, g.Sym(x))
		}
		// rule precedence: %prec symbol, else the LAST terminal of the rhs that has a precedence
		// (yaccgo's definition; workloads exclude the shapes where yacc's "last terminal" differs)
		if r.Prec >= 0 {
			rr.Prec = g.TLevel[g.T(r.Prec)]
			rr.Assoc = g.TAssoc[g.T(r.Prec)]
		} else {
			for _, x := range rr.R {
				if !g.IsNT[x] && g.TLevel[x] > 0 {
					rr.Prec = g.TLevel[x]
					rr.Assoc = g.TAssoc[x]
				}
			}
		}
		g.Rules = append(g.Rules, rr)
	}
	g.ByLHS = map[int][]int{}
	for i, r := range g.Rules {
		g.ByLHS[r.L] = append(g.ByLHS[r.L], i)
	}
	g.analyse()
	return g
}

// PrecAmbiguous reports whether some rule's precedence differs between "last
// terminal with a precedence" (yaccgo) and "last terminal" (yacc): such
// grammars are excluded from precedence-sensitive checks.
func (g *Grammar) PrecAmbiguous() bool {
	for i, r := range g.Spec.Rules {
		if r.Prec >= 0 {
			continue
		}
		last := -1
		for _, x := range g.Rules[i+1].R {
			if !g.IsNT[x] {
				last = x
			}
		}
		if last >= 0 && g.TLevel[last] != g.Rules[i+1].Prec {
			return true
		}
	}
	return false
}

func (g *Grammar) analyse() {
	n := g.NSym()
	g.Nullable = make([]bool, n)
	g.Prod = make([]bool, n)
	g.First = make([]map[int]bool, n)
	for i := 0; i < n; i++ {
		g.First[i] = map[int]bool{}
		if !g.IsNT[i] {
			g.First[i][i] = true
			g.Prod[i] = true
		}
	}
	for ch := true; ch; {
		ch = false
		for _, r := range g.Rules {
			alln, allp := true, true
			for _, s := range r.R {
				if alln {
					for t := range g.First[s] {
						if !g.First[r.L][t] {
							g.First[r.L][t] = true
							ch = true
						}
					}
				}
				if !g.Nullable[s] {
					alln = false
				}
				if !g.Prod[s] {
					allp = false
				}
			}
			if alln && !g.Nullable[r.L] {
				g.Nullable[r.L] = true
				ch = true
			}
			if allp && !g.Prod[r.L] {
				g.Prod[r.L] = true
				ch = true
			}
		}
	}
}

// Usable: every nonterminal of the spec has a rule and is productive.
// (Undefined symbols cannot be expressed in a Spec except via F5's raw texts.)
func (g *Grammar) Usable() (bool, string) {
	for i := range g.Spec.NTs {
		x := g.NT(i)
		if len(g.ByLHS[x]) == 0 {
			return false, "nonterminal without rules: " + g.Names[x]
		}
		if !g.Prod[x] {
			return false, "unproductive nonterminal: " + g.Names[x]
		}
	}
	return true, ""
}

// Reachable nonterminals/terminals from the start symbol.
func (g *Grammar) Reachable() []bool {
	seen := make([]bool, g.NSym())
	var st []int
	seen[0] = true
	st = append(st, 0)
	for len(st) > 0 {
		x := st[len(st)-1]
		st = st[:len(st)-1]
		for _, ri := range g.ByLHS[x] {
			for _, y := range g.Rules[ri].R {
				if !seen[y] {
					seen[y] = true
					if g.IsNT[y] {
						st = append(st, y)
					}
				}
			}
		}
	}
	return seen
}

// ---------------------------------------------------------------- LR(0)

type Item struct{ R, D int }

func sortItems(s []Item) {
	sort.Slice(s, func(i, j int) bool { return s[i].R < s[j].R || s[i].R == s[j].R && s[i].D < s[j].D })
}

func KeyOf(s []Item) string {
	c := append([]Item(nil), s...)
	sortItems(c)
	var b strings.Builder
	for _, it := range c {
		fmt.Fprintf(&b, "%d.%d,", it.R, it.D)
	}
	return b.String()
}

func (g *Grammar) Closure0(k []Item) []Item {
	set := map[Item]bool{}
	var out []Item
	var st []Item
	for _, it := range k {
		if !set[it] {
			set[it] = true
			out = append(out, it)
			st = append(st, it)
		}
	}
	for len(st) > 0 {
		it := st[len(st)-1]
		st = st[:len(st)-1]
		r := g.Rules[it.R]
		if it.D < len(r.R) && g.IsNT[r.R[it.D]] {
			for _, ri := range g.ByLHS[r.R[it.D]] {
				n := Item{ri, 0}
				if !set[n] {
					set[n] = true
					out = append(out, n)
					st = append(st, n)
				}
			}
		}
	}
	sortItems(out)
	return out
}

type LR0 struct {
	States map[string][]Item         // key -> item set
	Trans  map[string]map[int]string // key -> symbol -> key
	Start  string
	Order  []string // BFS order of discovery (deterministic)
}

func (g *Grammar) BuildLR0(limit int) (*LR0, bool) {
	res := &LR0{States: map[string][]Item{}, Trans: map[string]map[int]string{}}
	s0 := g.Closure0([]Item{{0, 0}})
	res.Start = KeyOf(s0)
	res.States[res.Start] = s0
	res.Order = []string{res.Start}
	for qi := 0; qi < len(res.Order); qi++ {
		if len(res.Order) > limit {
			return nil, false
		}
		k := res.Order[qi]
		by := map[int][]Item{}
		var syms []int
		for _, it := range res.States[k] {
			r := g.Rules[it.R]
			if it.D < len(r.R) {
				x := r.R[it.D]
				if _, ok := by[x]; !ok {
					syms = append(syms, x)
				}
				by[x] = append(by[x], Item{it.R, it.D + 1})
			}
		}
		sort.Ints(syms)
		res.Trans[k] = map[int]string{}
		for _, x := range syms {
			c := g.Closure0(by[x])
			ck := KeyOf(c)
			if _, ok := res.States[ck]; !ok {
				res.States[ck] = c
				res.Order = append(res.Order, ck)
			}
			res.Trans[k][x] = ck
		}
	}
	return res, true
}

// ---------------------------------------------------------------- LALR(1) by canonical LR(1) + merge

type item1 struct{ R, D, LA int }

// LALR holds, per LR(0) state key and final item, the LALR(1) lookahead set.
type LALR struct {
	LR0 *LR0
	LA  map[string]map[Item]map[int]bool
	// NLR1 is the number of canonical LR(1) states built
	NLR1 int
}

func (g *Grammar) firstSeq(seq []int, la int) []int {
	out := map[int]bool{}
	for _, s := range seq {
		for t := range g.First[s] {
			out[t] = true
		}
		if !g.Nullable[s] {
			return keys(out)
		}
	}
	out[la] = true
	return keys(out)
}

func keys(m map[int]bool) []int {
	o := make([]int, 0, len(m))
	for k := range m {
		o = append(o, k)
	}
	sort.Ints(o)
	return o
}

// BuildLALR constructs the canonical LR(1) collection (capped) and merges by core.
func (g *Grammar) BuildLALR(limit int) (*LALR, bool) {
	lr0, ok := g.BuildLR0(limit)
	if !ok {
		return nil, false
	}
	closure := func(k []item1) []item1 {
		set := map[item1]bool{}
		var out, st []item1
		for _, it := range k {
			if !set[it] {
				set[it] = true
				out = append(out, it)
				st = append(st, it)
			}
		}
		for len(st) > 0 {
			it := st[len(st)-1]
			st = st[:len(st)-1]
			r := g.Rules[it.R]
			if it.D < len(r.R) && g.IsNT[r.R[it.D]] {
				for _, la := range g.firstSeq(r.R[it.D+1:], it.LA) {
					for _, ri := range g.ByLHS[r.R[it.D]] {
						n := item1{ri, 0, la}
						if !set[n] {
							set[n] = true
							out = append(out, n)
							st = append(st, n)
						}
					}
				}
			}
		}
		sort.Slice(out, func(i, j int) bool {
			a, b := out[i], out[j]
			if a.R != b.R {
				return a.R < b.R
			}
			if a.D != b.D {
				return a.D < b.D
			}
			return a.LA < b.LA
		})
		return out
	}
	key1 := func(s []item1) string {
		var b strings.Builder
		for _, it := range s {
			fmt.Fprintf(&b, "%d.%d.%d,", it.R, it.D, it.LA)
		}
		return b.String()
	}
	states := map[string][]item1{}
	s0 := closure([]item1{{0, 0, 1}})
	k0 := key1(s0)
	states[k0] = s0
	work := []string{k0}
	for qi := 0; qi < len(work); qi++ {
		if len(work) > limit {
			return nil, false
		}
		k := work[qi]
		by := map[int][]item1{}
		var syms []int
		for _, it := range states[k] {
			r := g.Rules[it.R]
			if it.D < len(r.R) {
				x := r.R[it.D]
				if _, ok := by[x]; !ok {
					syms = append(syms, x)
				}
				by[x] = append(by[x], item1{it.R, it.D + 1, it.LA})
			}
		}
		sort.Ints(syms)
		for _, x := range syms {
			c := closure(by[x])
			ck := key1(c)
			if _, ok := states[ck]; !ok {
				states[ck] = c
				work = append(work, ck)
			}
		}
	}
	res := &LALR{LR0: lr0, LA: map[string]map[Item]map[int]bool{}, NLR1: len(states)}
	for _, s := range states {
		coreSet := map[Item]bool{}
		var core []Item
		for _, it := range s {
			c := Item{it.R, it.D}
			if !coreSet[c] {
				coreSet[c] = true
				core = append(core, c)
			}
		}
		ck := KeyOf(core)
		if res.LA[ck] == nil {
			res.LA[ck] = map[Item]map[int]bool{}
		}
		for _, it := range s {
			if it.D == len(g.Rules[it.R].R) {
				i0 := Item{it.R, it.D}
				if res.LA[ck][i0] == nil {
					res.LA[ck][i0] = map[int]bool{}
				}
				res.LA[ck][i0][it.LA] = true
			}
		}
	}
	return res, true
}

// ---------------------------------------------------------------- conflicts and resolution

const (
	ActShift = iota
	ActReduce
	ActError
	ActAccept
)

type Cand struct {
	Kind  int // ActShift | ActReduce
	Rule  int // for reduce
	To    string
	Prec  int // 0 none
	Assoc int
}

// Candidates returns the candidate actions of (state, terminal) under LALR(1).
func (l *LALR) Candidates(g *Grammar, state string, t int) []Cand {
	var out []Cand
	if to, ok := l.LR0.Trans[state][t]; ok {
		out = append(out, Cand{Kind: ActShift, To: to, Prec: g.TLevel[t], Assoc: g.TAssoc[t]})
	}
	var rules []int
	for it, la := range l.LA[state] {
		if la[t] {
			rules = append(rules, it.R)
		}
	}
	sort.Ints(rules)
	for _, r := range rules {
		out = append(out, Cand{Kind: ActReduce, Rule: r, Prec: g.Rules[r].Prec, Assoc: g.Rules[r].Assoc})
	}
	return out
}

// Resolve2 applies the documented rule to a two-candidate cell. It returns the
// winner (or ActError for %nonassoc) and whether a warning is due (no applicable precedence).
func Resolve2(a, b Cand) (Cand, bool) {
	if a.Kind == ActReduce && b.Kind == ActShift {
		a, b = b, a
	}
	if a.Kind == ActShift && b.Kind == ActReduce {
		if a.Prec == 0 || b.Prec == 0 {
			return a, true // default: shift
		}
		switch {
		case b.Prec > a.Prec:
			return b, false
		case b.Prec < a.Prec:
			return a, false
		}
		switch b.Assoc {
		case wl.AssocLeft:
			return b, false
		case wl.AssocRight:
			return a, false
		}
		return Cand{Kind: ActError}, false
	}
	// reduce/reduce: the rule that appears first
	if a.Rule > b.Rule {
		a, b = b, a
	}
	return a, true
}

type ConflictInfo struct {
	Cells        int // cells with >= 2 candidates
	MultiWay     int // cells with >= 3 candidates
	Unresolved   int // cells where some pair lacks applicable precedence (=> warning due)
	RRBothPrec   bool
	SR, RR       int
	NonassocErrs int
}

// Conflicts summarises the LALR(1) conflicts of g.
func (l *LALR) Conflicts(g *Grammar) ConflictInfo {
	var ci ConflictInfo
	for _, st := range l.LR0.Order {
		for t := 1; t < g.NSym(); t++ {
			if g.IsNT[t] {
				continue
			}
			c := l.Candidates(g, st, t)
			if len(c) < 2 {
				continue
			}
			ci.Cells++
			if len(c) > 2 {
				ci.MultiWay++
			}
			nred := 0
			unres := false
			for _, x := range c {
				if x.Kind == ActReduce {
					nred++
				}
				if x.Prec == 0 {
					unres = true
				}
			}
			if c[0].Kind == ActShift {
				ci.SR++
			}
			if nred >= 2 {
				ci.RR++
				all := true
				for _, x := range c {
					if x.Kind == ActReduce && x.Prec == 0 {
						all = false
					}
				}
				if all {
					ci.RRBothPrec = true
				}
			}
			if unres {
				ci.Unresolved++
			}
			if len(c) == 2 {
				if w, _ := Resolve2(c[0], c[1]); w.Kind == ActError {
					ci.NonassocErrs++
				}
			}
		}
	}
	return ci
}

// Follow computes the SLR FOLLOW sets.
func (g *Grammar) Follow() []map[int]bool {
	f := make([]map[int]bool, g.NSym())
	for i := range f {
		f[i] = map[int]bool{}
	}
	f[0][1] = true
	for ch := true; ch; {
		ch = false
		for _, r := range g.Rules {
			for i, s := range r.R {
				if !g.IsNT[s] {
					continue
				}
				alln := true
				for _, t := range r.R[i+1:] {
					for x := range g.First[t] {
						if !f[s][x] {
							f[s][x] = true
							ch = true
						}
					}
					if !g.Nullable[t] {
						alln = false
						break
					}
				}
				if alln {
					for x := range f[r.L] {
						if !f[s][x] {
							f[s][x] = true
							ch = true
						}
					}
				}
			}
		}
	}
	return f
}

// IsSLR reports whether the SLR(1) table (reductions on FOLLOW) is conflict free.
func (g *Grammar) IsSLR(l *LALR) bool {
	fol := g.Follow()
	for _, st := range l.LR0.Order {
		for t := 1; t < g.NSym(); t++ {
			if g.IsNT[t] {
				continue
			}
			n := 0
			if _, ok := l.LR0.Trans[st][t]; ok {
				n++
			}
			for _, it := range l.LR0.States[st] {
				if it.D == len(g.Rules[it.R].R) {
					if it.R == 0 {
						if t == 1 {
							n++
						}
					} else if fol[g.Rules[it.R].L][t] {
						n++
					}
				}
			}
			if n > 1 {
				return false
			}
		}
	}
	return true
}
