// Package rng: the single source of randomness of the harness. One integer
// (VERIF_SEED) decides everything; independent sub-streams are derived by
// hashing labels into the seed, so that case i does not depend on how many
// workers ran, and shrinking one dimension does not reshuffle the others.
package rng

import "fmt"

type R struct{ s uint64 }

func mix(z uint64) uint64 {
	z = (z ^ (z >> 30)) * 0xBF58476D1CE4E5B9
	z = (z ^ (z >> 27)) * 0x94D049BB133111EB
	return z ^ (z >> 31)
}

func hashStr(s string) uint64 {
	h := uint64(14695981039346656037)
	for i := 0; i < len(s); i++ {
		h ^= uint64(s[i])
		h *= 1099511628211
	}
	return h
}

// New derives a stream from a seed and any number of labels.
func New(seed uint64, labels ...any) *R {
	s := mix(seed + 0x9E3779B97F4A7C15)
	for _, l := range labels {
		s = mix(s ^ hashStr(fmt.Sprint(l)) + 0x9E3779B97F4A7C15)
	}
	return &R{s: s}
}

// Sub derives an independent stream without advancing r.
func (r *R) Sub(labels ...any) *R { return New(r.s, labels...) }

func (r *R) Seed() uint64 { return r.s }

func (r *R) Uint64() uint64 {
	r.s += 0x9E3779B97F4A7C15
	return mix(r.s)
}

// Intn returns a number in [0,n); n <= 0 gives 0.
func (r *R) Intn(n int) int {
	if n <= 1 {
		return 0
	}
	return int(r.Uint64() % uint64(n))
}

// Range returns a number in [lo,hi].
func (r *R) Range(lo, hi int) int { return lo + r.Intn(hi-lo+1) }

func (r *R) Bool() bool { return r.Uint64()&1 == 1 }

// Chance is true with probability num/den.
func (r *R) Chance(num, den int) bool { return r.Intn(den) < num }

func (r *R) Perm(n int) []int {
	p := make([]int, n)
	for i := range p {
		p[i] = i
	}
	for i := n - 1; i > 0; i-- {
		j := r.Intn(i + 1)
		p[i], p[j] = p[j], p[i]
	}
	return p
}

func Pick[T any](r *R, xs []T) T { return xs[r.Intn(len(xs))] }
