package wl

import (
	"fmt"
	"strings"

	"github.com/acekingke/yaccgo/verifsim/rng"
)

var termNames = []string{"NUM", "ID", "STR", "PLUS", "MINUS", "STAR", "SLASH", "LP", "RP", "EQ", "LT", "GT", "COMMA", "SEMI",
	"IF", "THEN", "ELSE", "WHILE", "DO", "KW_end", "tok_a", "tok_b", "Tc", "Td", "X1", "Y2", "Z_3", "_u", "alpha", "beta9"}
var ntNames = []string{"expr", "stmt", "list", "item", "opt", "tail", "prog", "decl", "term", "factor", "atom", "args", "body",
	"A", "B", "C", "D", "E", "S", "L", "R", "n1", "n_2", "Xs", "block", "seq"}

// literal characters yaccgo can lex as 'c' and that are safe in every generated context we know to be intended
// (the single quote is written the one way yaccgo's lexer takes it, as the three characters '\' - see Term.Key)
// The last four are the Latin-1 characters × ÷ é § (a calculator grammar with '×' and '÷' is ordinary use): in the
// grammar file they are two bytes of UTF-8 each, their token code is the character code (215, 247, 233, 167).
var LitPool = []byte("+-*/()<>=,;:!&|^~?.[]{}@#ab0%\"$`_Z9\xd7\xf7\xe9\xa7'")

func uniqueNames(r *rng.R, pool []string, n int) []string {
	p := r.Perm(len(pool))
	out := make([]string, n)
	for i := 0; i < n; i++ {
		if i < len(pool) {
			out[i] = pool[p[i]]
		} else {
			out[i] = fmt.Sprintf("%s_%d", pool[p[i%len(pool)]], i)
		}
	}
	return out
}

// Params of the random CFG family.
type CFGParams struct {
	MaxNT, MaxT, MaxExtra, MaxRhs int
	Literals                      bool // allow character literal terminals
	Prec                          bool // add random precedence declarations and %prec
}

// RandomCFG: family F1. Every nonterminal gets at least one rule; productivity is
// NOT guaranteed here (the reference decides).
func RandomCFG(r *rng.R, p CFGParams) *Spec {
	nn := r.Range(1, p.MaxNT)
	nt := r.Range(1, p.MaxT)
	s := &Spec{Family: "F1", StartDecl: true}
	for _, n := range uniqueNames(r.Sub("nt"), ntNames, nn) {
		s.NTs = append(s.NTs, NT{Name: n})
	}
	tn := uniqueNames(r.Sub("t"), termNames, nt)
	lits := r.Sub("lit").Perm(len(LitPool))
	for i := 0; i < nt; i++ {
		if p.Literals && r.Chance(1, 3) {
			d := DeclUseOnly
			if r.Chance(1, 2) {
				d = DeclToken
			}
			s.Terms = append(s.Terms, Term{Lit: LitPool[lits[i%len(lits)]], Decl: d})
		} else {
			s.Terms = append(s.Terms, Term{Name: tn[i], Decl: DeclToken})
		}
	}
	nr := nn + r.Intn(p.MaxExtra+1)
	for i := 0; i < nr; i++ {
		l := i
		if i >= nn {
			l = r.Intn(nn)
		}
		n := r.Intn(p.MaxRhs + 1)
		rule := Rule{L: l, Prec: -1}
		for j := 0; j < n; j++ {
			if r.Chance(1, 2) {
				rule.R = append(rule.R, Sym{NT: true, I: r.Intn(nn)})
			} else {
				rule.R = append(rule.R, Sym{I: r.Intn(nt)})
			}
		}
		s.Rules = append(s.Rules, rule)
	}
	// the same production written twice is legal (a reduce/reduce conflict the first one wins)
	if r.Chance(1, 8) && len(s.Rules) > 0 {
		d := s.Rules[r.Intn(len(s.Rules))]
		d.R = append([]Sym(nil), d.R...)
		pos := r.Intn(len(s.Rules) + 1)
		s.Rules = append(s.Rules[:pos], append([]Rule{d}, s.Rules[pos:]...)...)
	}
	// group rules by lhs? no: keep the random order, rules of one lhs may be scattered (legal yacc)
	// a used-only literal must actually be used, else it does not exist for yaccgo
	used := map[int]bool{}
	for _, rl := range s.Rules {
		for _, x := range rl.R {
			if !x.NT {
				used[x.I] = true
			}
		}
	}
	for i := range s.Terms {
		if s.Terms[i].Decl == DeclUseOnly && !used[i] {
			s.Terms[i].Decl = DeclToken
		}
	}
	if p.Prec {
		AddRandomPrec(s, r.Sub("prec"))
	}
	// names that differ only in letter case: the classic  %token NUMBER  /  number : ...  pair, or two such tokens
	if r.Chance(1, 5) {
		for ti := range s.Terms {
			if s.Terms[ti].Name == "" {
				continue
			}
			low := strings.ToLower(s.Terms[ti].Name)
			up := strings.ToUpper(s.Terms[ti].Name)
			cand := low
			if cand == s.Terms[ti].Name {
				cand = up
			}
			if cand == s.Terms[ti].Name {
				continue
			}
			taken := false
			for _, n := range s.NTs {
				if n.Name == cand {
					taken = true
				}
			}
			for _, t := range s.Terms {
				if t.Name == cand {
					taken = true
				}
			}
			if taken {
				continue
			}
			if r.Chance(1, 2) || len(s.Terms) < 2 || reservedWord[strings.ToLower(cand)] {
				// (a nonterminal's name is never emitted as an identifier; a token's name is, so it must not be a keyword)
				s.NTs[r.Intn(len(s.NTs))].Name = cand
			} else {
				// a second token spelled the same but for case
				for tj := range s.Terms {
					if tj != ti && s.Terms[tj].Name != "" {
						s.Terms[tj].Name = cand
						break
					}
				}
			}
			break
		}
	}
	// token names that differ only by leading zeros of a digit run (INT8 / INT08), and names longer than any column a
	// listing might reserve, two of them with a long common prefix
	if r.Chance(1, 8) {
		var named []int
		for ti := range s.Terms {
			if s.Terms[ti].Name != "" {
				named = append(named, ti)
			}
		}
		if len(named) >= 2 {
			s.Terms[named[0]].Name = "INT8"
			s.Terms[named[1]].Name = "INT08"
			if len(named) >= 3 {
				s.Terms[named[2]].Name = "INT008"
			}
		}
	}
	if r.Chance(1, 8) {
		long := []string{"assignment_expression_list", "assignment_expression_tail", "multiplicative_expression_with_a_very_long_name"}
		for k, nm := range long {
			if k < len(s.NTs) {
				s.NTs[(k+r.Intn(len(s.NTs)))%len(s.NTs)].Name = nm
			}
		}
		// (assigning to the same index twice just leaves fewer long names)
		seen := map[string]bool{}
		for i := range s.NTs {
			if seen[s.NTs[i].Name] {
				s.NTs[i].Name = fmt.Sprintf("%s_%d", s.NTs[i].Name, i)
			}
			seen[s.NTs[i].Name] = true
		}
		for ti := range s.Terms {
			if s.Terms[ti].Name != "" && r.Chance(1, 3) {
				s.Terms[ti].Name = "TOKEN_WITH_A_LONG_NAME_" + s.Terms[ti].Name
				break
			}
		}
	}
	// a nonterminal spelled like a word yacc or yaccgo gives a meaning elsewhere (never emitted as an identifier)
	if r.Chance(1, 10) {
		words := []string{"error", "token", "type", "union", "left", "right", "prec", "nonassoc", "empty", "precedence",
			"graph", "node", "edge", "digraph", "subgraph", "strict", "Graph", "NODE"}
		w := words[r.Intn(len(words))]
		taken := false
		for _, n := range s.NTs {
			if n.Name == w {
				taken = true
			}
		}
		for _, t := range s.Terms {
			if t.Name == w {
				taken = true
			}
		}
		if !taken {
			k := r.Intn(len(s.NTs))
			if r.Chance(1, 2) {
				k = s.Start // a graph-description language starts with `graph`, a tree grammar with `node`
			}
			s.NTs[k].Name = w
		}
	}
	// names with letters outside ASCII (the lexer takes any Unicode letter; Go and TypeScript identifiers do, too)
	if r.Chance(1, 8) {
		ntNames := []string{"Ausdrück", "größe", "выражение", "λist", "項"}
		tkNames := []string{"ZÄHLER", "ÉTOILE", "ЧИСЛО", "Ωmega", "数"}
		k := r.Intn(len(ntNames))
		s.NTs[r.Intn(len(s.NTs))].Name = ntNames[k]
		if r.Chance(1, 2) {
			for ti := range s.Terms {
				if s.Terms[ti].Name != "" {
					s.Terms[ti].Name = tkNames[k]
					break
				}
			}
		}
	}
	// the documented default: no %start, the start symbol is the nonterminal called `start`
	if r.Chance(1, 10) {
		taken := false
		for _, n := range s.NTs {
			if n.Name == "start" {
				taken = true
			}
		}
		if !taken {
			s.NTs[s.Start].Name = "start"
			s.StartDecl = r.Chance(1, 3)
		}
	}
	// the end-marker alias of examples/e.y
	if r.Chance(1, 8) {
		s.EOFAlias = "EOFMARK"
	}
	return s
}

// BigCFG: a grammar with more than 64 table columns (2 + terminals + nonterminals), short rules.
func BigCFG(r *rng.R) *Spec {
	nn := r.Range(18, 30)
	nt := r.Range(40, 95) // symbol ids beyond 64 and table rows beyond 64 columns
	s := &Spec{Family: "big", StartDecl: true}
	for i := 0; i < nn; i++ {
		s.NTs = append(s.NTs, NT{Name: fmt.Sprintf("n%d", i)})
	}
	for i := 0; i < nt; i++ {
		s.Terms = append(s.Terms, Term{Name: fmt.Sprintf("T%d", i), Decl: DeclToken})
	}
	// layered: nonterminal i only refers to nonterminals > i (plus itself for left recursion), so everything is productive
	for i := 0; i < nn; i++ {
		alts := r.Range(1, 3)
		for a := 0; a < alts; a++ {
			rule := Rule{L: i, Prec: -1}
			n := r.Range(1, 3)
			for j := 0; j < n; j++ {
				if i+1 < nn && r.Chance(1, 2) {
					rule.R = append(rule.R, Sym{NT: true, I: r.Range(i+1, nn-1)})
				} else {
					rule.R = append(rule.R, Sym{I: r.Intn(nt)})
				}
			}
			s.Rules = append(s.Rules, rule)
		}
		if r.Chance(1, 3) {
			s.Rules = append(s.Rules, Rule{L: i, R: []Sym{{NT: true, I: i}, {I: r.Intn(nt)}, {I: r.Intn(nt)}}, Prec: -1})
		}
	}
	// make sure the start symbol reaches many nonterminals: n0 : n1 n2 ... chains
	for i := 0; i+1 < nn; i += 2 {
		s.Rules = append(s.Rules, Rule{L: i, R: []Sym{{I: r.Intn(nt)}, {NT: true, I: i + 1}}, Prec: -1})
	}
	return s
}

// DecorateShared: like DecorateInt but actions come from a fixed template, so that several rules carry byte-identical
// action text while their symbols use different union fields. Such specs must be NoRec (the rule is not identifiable
// from the action) and are evaluated over a table-driven derivation.
func DecorateShared(s *Spec, r *rng.R) {
	s.Fields = []Field{{"fa", "int"}, {"fb", "int"}, {"fc", "int"}}
	for i := range s.NTs {
		s.NTs[i].Tag = s.Fields[r.Intn(3)].Name
	}
	for i := range s.Terms {
		if s.Terms[i].Decl == DeclToken {
			s.Terms[i].Tag = s.Fields[r.Intn(3)].Name
		} else {
			s.Terms[i].Tag = ""
		}
	}
	for i := range s.Rules {
		rl := &s.Rules[i]
		var e *Expr = &Expr{Op: 'k', K: 7}
		for k, x := range rl.R {
			if s.TagOf(x) != "" {
				e = &Expr{Op: '+', L: e, R: &Expr{Op: '*', L: &Expr{Op: 'd', K: k + 1}, R: &Expr{Op: 'k', K: 3}}}
			}
		}
		rl.Act = e
	}
	s.NoRec = true
}

// AddRandomPrec declares 1..3 precedence levels over a random subset of the
// terminals and adds %prec to a few rules.
func AddRandomPrec(s *Spec, r *rng.R) {
	nl := r.Range(1, 3)
	perm := r.Perm(len(s.Terms))
	k := 0
	for l := 0; l < nl && k < len(perm); l++ {
		lv := Level{Assoc: r.Intn(3)}
		n := r.Range(1, 2)
		for j := 0; j < n && k < len(perm); j++ {
			lv.Terms = append(lv.Terms, perm[k])
			k++
		}
		s.Levels = append(s.Levels, lv)
	}
	var withPrec []int
	for _, lv := range s.Levels {
		withPrec = append(withPrec, lv.Terms...)
	}
	// %prec may name any declared token; one without a level gives the rule no precedence at all (it clears what the
	// rule would inherit from its last ranked terminal)
	ranked := map[int]bool{}
	for _, t := range withPrec {
		ranked[t] = true
	}
	var unranked []int
	for ti, t := range s.Terms {
		if !ranked[ti] && t.Decl == DeclToken {
			unranked = append(unranked, ti)
		}
	}
	for i := range s.Rules {
		if r.Chance(1, 6) && len(withPrec) > 0 {
			s.Rules[i].Prec = rng.Pick(r, withPrec)
			if len(unranked) > 0 && r.Chance(1, 4) {
				s.Rules[i].Prec = rng.Pick(r, unranked)
			}
		}
	}
}

// Classics: family F2, the textbook separators.
var classicsSrc = map[string]string{
	"lr0-paren":            "S: '(' S ')' | 'x'",
	"slr-expr":             "E: E '+' T | T ; T: T '*' F | F ; F: '(' E ')' | ID",
	"lalr-not-slr":         "S: L EQ R | R ; L: STAR R | ID ; R: L",
	"lr1-not-lalr":         "S: 'a' E 'a' | 'b' E 'b' | 'a' F 'b' | 'b' F 'a' ; E: 'e' ; F: 'e'",
	"nqlalr":               "S: 'a' G 'd' | 'a' A 'c' | 'b' A 'd' | 'b' G 'c' ; A: B ; B: G ; G: 'g'",
	"nqlalr-dp":            "S: 'a' 'g' 'd' | 'a' A 'c' | 'b' A 'd' | 'b' 'g' 'c' ; A: B ; B: 'g'",
	"nullable":             "S: A B C 'x' ; A: 'a' | ; B: 'b' | ; C: 'c' |",
	"nullable2":            "S: A S 'b' | ; A: 'a' |",
	"reads-chain":          "S: 'x' A B C 'y' | 'x' A 'z' ; A: 'a' ; B: | 'b' ; C: | 'c'",
	"includes-scc":         "S: A 'x' ; A: 'a' B | 'c' ; B: 'b' A | 'd'",
	"right-rec":            "L: ID ',' L | ID",
	"left-rec":             "L: L ',' ID | ID",
	"cyclic":               "S: A | 'x' ; A: S | 'y'",
	"self-cycle":           "A: A | 'a'",
	"dangling-else":        "S: IF 'c' THEN S | IF 'c' THEN S ELSE S | 'o'",
	"ambig-expr":           "E: E '+' E | E '*' E | NUM",
	"prec-expr":            "%left '+' '-' ; %left '*' '/' ; %right '^' ; E: E '+' E | E '-' E | E '*' E | E '/' E | E '^' E | '(' E ')' | NUM",
	"nonassoc":             "%nonassoc '<' ; %left '+' ; E: E '<' E | E '+' E | NUM",
	"unary":                "%left '+' '-' ; %left '*' ; %right UMINUS ; E: E '+' E | E '-' E | E '*' E | '-' E %prec UMINUS | NUM",
	"rr-conflict":          "S: A 'x' | B 'x' ; A: 'a' ; B: 'a'",
	"opt-list":             "P: L ; L: L I | ; I: ID ';' | ';'",
	"epsilon-start":        "S: | S 'a'",
	"json-like":            "V: '{' M '}' | '[' Es ']' | STR | NUM ; M: | P | M ',' P ; P: STR ':' V ; Es: | V | Es ',' V",
	"palin":                "S: 'a' S 'a' | 'b' S 'b' | 'a' | 'b' |",
	"lr2":                  "S: A 'x' 'y' | B 'x' 'z' ; A: 'a' ; B: 'a'",
	"default-start":        "start: start 'a' | 'b'",
	"default-start-nested": "start: '(' start ')' | '[' start ']' | item ; item: 'a' | 'b' item",
}

var classicOrder = []string{"lr0-paren", "slr-expr", "lalr-not-slr", "lr1-not-lalr", "nqlalr", "nqlalr-dp", "nullable", "nullable2",
	"reads-chain", "includes-scc", "right-rec", "left-rec", "cyclic", "self-cycle", "dangling-else", "ambig-expr", "prec-expr",
	"nonassoc", "unary", "rr-conflict", "opt-list", "epsilon-start", "json-like", "palin", "lr2", "default-start", "default-start-nested"}

// Classics returns fresh copies of the F2 grammars.
func Classics() []*Spec {
	var out []*Spec
	for _, k := range classicOrder {
		s := MustDSL(classicsSrc[k])
		s.Family = "F2:" + k
		if strings.HasPrefix(k, "default-start") {
			s.StartDecl = false
		}
		out = append(out, s)
	}
	return out
}

func ClassicByName(name string) *Spec {
	s := MustDSL(classicsSrc[name])
	s.Family = "F2:" + name
	if strings.HasPrefix(name, "default-start") {
		s.StartDecl = false
	}
	return s
}

// VaryClassic renames symbols, permutes alternatives of each left-hand side and
// optionally embeds the grammar under a fresh start symbol.
func VaryClassic(s *Spec, r *rng.R) *Spec {
	c := s.Clone()
	keepStartName := !c.StartDecl
	nn := uniqueNames(r.Sub("nt"), ntNames, len(c.NTs)+1)
	for i := range c.NTs {
		if keepStartName && i == c.Start {
			continue
		}
		c.NTs[i].Name = nn[i]
	}
	tn := uniqueNames(r.Sub("t"), termNames, len(c.Terms))
	for i := range c.Terms {
		if c.Terms[i].Name != "" {
			c.Terms[i].Name = tn[i]
		}
	}
	// permute the rules (start symbol stays the declared one)
	if r.Chance(1, 2) {
		p := r.Perm(len(c.Rules))
		nr := make([]Rule, len(c.Rules))
		for i, j := range p {
			nr[i] = c.Rules[j]
		}
		c.Rules = nr
		if !c.StartDecl {
			c.StartDecl = true
		}
	}
	if r.Chance(1, 3) && c.StartDecl {
		// embed: Top: S T_x | S
		top := len(c.NTs)
		c.NTs = append(c.NTs, NT{Name: nn[len(nn)-1] + "_top"})
		c.Terms = append(c.Terms, Term{Name: "ENDX", Decl: DeclToken})
		c.Rules = append(c.Rules, Rule{L: top, R: []Sym{{NT: true, I: c.Start}, {I: len(c.Terms) - 1}}, Prec: -1},
			Rule{L: top, R: []Sym{{NT: true, I: c.Start}}, Prec: -1})
		c.Start = top
	}
	c.Family = s.Family + "+var"
	return c
}

// OperatorTable: family F3. E : E op E (per binary operator) | pre E %prec P | '(' E ')' | NUM.
type OpTable struct {
	Spec     *Spec `json:"-"`
	Binary   []int `json:"binary"`    // terminal indices of binary operators
	Prefix   []int `json:"prefix"`    // terminal indices of prefix operators
	PrefixAs []int `json:"prefix_as"` // for each prefix operator, the pseudo token whose precedence it takes (-1: its own)
	Num      int   `json:"num"`
	LP       int   `json:"lp"` // -1 when the table has no parentheses
	RP       int   `json:"rp"`
	// MultiLine: the actions of the binary operators build their text with a literal that spans lines
	MultiLine bool `json:"multiline,omitempty"`
}

// BinarySep is the text the action of binary operator op puts between its operands.
func (ot *OpTable) BinarySep(op int) string {
	if ot.MultiLine {
		return fmt.Sprintf(" o%d  \n\t    <li> \t\n  ", op) // (lines inside the literal end in blanks and a tab)
	}
	return fmt.Sprintf(" o%d ", op)
}

func OperatorTable(r *rng.R) *OpTable {
	s := &Spec{Family: "F3", StartDecl: true, Fields: []Field{{"s", "string"}}}
	s.NTs = []NT{{Name: rng.Pick(r, []string{"E", "expr", "e"}), Tag: "s"}}
	ot := &OpTable{Spec: s, LP: -1, RP: -1}
	nl := r.Range(1, 6)
	pool := []byte("+-*/<>=^&|~!?:,.@#")
	perm := r.Perm(len(pool))
	k := 0
	namedOps := uniqueNames(r.Sub("ops"), []string{"OR", "AND", "NOT", "PLUS", "MINUS", "MUL", "POW", "CMP", "ARROW", "OPX", "OPY"}, 11)
	nk := 0
	newTerm := func(decl int) int {
		var t Term
		if r.Chance(1, 4) {
			t = Term{Name: namedOps[nk], Decl: decl}
			nk++
		} else {
			t = Term{Lit: pool[perm[k]], Decl: decl}
			k++
		}
		s.Terms = append(s.Terms, t)
		return len(s.Terms) - 1
	}
	for l := 0; l < nl; l++ {
		lv := Level{Assoc: r.Intn(3)}
		n := r.Range(1, 3)
		for j := 0; j < n && k < len(perm)-1 && nk < len(namedOps)-1; j++ {
			d := DeclPrecOnly
			if r.Chance(1, 3) {
				d = DeclToken
			}
			t := newTerm(d)
			lv.Terms = append(lv.Terms, t)
			ot.Binary = append(ot.Binary, t)
		}
		s.Levels = append(s.Levels, lv)
	}
	// prefix operators: reuse a binary operator's character with %prec of a pseudo token at a random level, or a fresh token
	np := r.Intn(3)
	for j := 0; j < np && k < len(perm)-1 && nk < len(namedOps)-1; j++ {
		if r.Chance(1, 2) && len(ot.Binary) > 0 {
			// e.g. '-' E %prec UMINUS, UMINUS declared in a (new or existing) level
			op := rng.Pick(r, ot.Binary)
			already := false
			for _, p := range ot.Prefix {
				if p == op {
					already = true
				}
			}
			if already {
				continue
			}
			pseudo := len(s.Terms)
			s.Terms = append(s.Terms, Term{Name: fmt.Sprintf("UOP%d", j), Decl: DeclPrecOnly})
			li := r.Intn(len(s.Levels) + 1)
			if li == len(s.Levels) {
				s.Levels = append(s.Levels, Level{Assoc: r.Intn(3), Terms: []int{pseudo}})
			} else {
				s.Levels[li].Terms = append(s.Levels[li].Terms, pseudo)
			}
			ot.Prefix = append(ot.Prefix, op)
			ot.PrefixAs = append(ot.PrefixAs, pseudo)
		} else {
			// a fresh prefix-only operator with its own level
			t := newTerm(DeclPrecOnly)
			li := r.Intn(len(s.Levels) + 1)
			if li == len(s.Levels) {
				s.Levels = append(s.Levels, Level{Assoc: r.Intn(3), Terms: []int{t}})
			} else {
				s.Levels[li].Terms = append(s.Levels[li].Terms, t)
			}
			ot.Prefix = append(ot.Prefix, t)
			ot.PrefixAs = append(ot.PrefixAs, -1)
		}
	}
	ot.Num = len(s.Terms)
	s.Terms = append(s.Terms, Term{Name: "NUM", Tag: "s", Decl: DeclToken})
	if r.Chance(3, 4) {
		ot.LP = len(s.Terms)
		s.Terms = append(s.Terms, Term{Lit: '(', Decl: DeclUseOnly})
		ot.RP = len(s.Terms)
		s.Terms = append(s.Terms, Term{Lit: ')', Decl: DeclUseOnly})
	}
	E := Sym{NT: true, I: 0}
	d := func(k int) *Expr { return &Expr{Op: 'd', K: k} }
	q := func(x string) *Expr { return &Expr{Op: 'q', S: x} }
	// some tables build their text with literals that span lines (reports, code, HTML are built that way)
	ot.MultiLine = r.Sub("multiline").Chance(1, 4)
	for _, op := range ot.Binary {
		sep := ot.BinarySep(op)
		s.Rules = append(s.Rules, Rule{L: 0, R: []Sym{E, {I: op}, E}, Prec: -1,
			Act: &Expr{Op: 'c', Parts: []*Expr{q("("), d(1), q(sep), d(3), q(")")}}})
	}
	for i, op := range ot.Prefix {
		s.Rules = append(s.Rules, Rule{L: 0, R: []Sym{{I: op}, E}, Prec: ot.PrefixAs[i],
			Act: &Expr{Op: 'c', Parts: []*Expr{q(fmt.Sprintf("(p%d ", op)), d(2), q(")")}}})
	}
	if ot.LP >= 0 {
		s.Rules = append(s.Rules, Rule{L: 0, R: []Sym{{I: ot.LP}, E, {I: ot.RP}}, Prec: -1, Act: &Expr{Op: 'c', Parts: []*Expr{d(2)}}})
	}
	s.Rules = append(s.Rules, Rule{L: 0, R: []Sym{{I: ot.Num}}, Prec: -1, Act: &Expr{Op: 'c', Parts: []*Expr{d(1)}}})
	// shuffle rule order: precedence must not depend on it
	p := r.Perm(len(s.Rules))
	nr := make([]Rule, len(s.Rules))
	for i, j := range p {
		nr[i] = s.Rules[j]
	}
	s.Rules = nr
	s.OpTab = ot
	return ot
}

// DecorateInt gives the spec a union of int fields, tags for nonterminals and
// (most) tokens, and arithmetic actions, so that generated parsers compute values.
func DecorateInt(s *Spec, r *rng.R) {
	s.ActionNotes = r.Sub("notes").Chance(1, 4)
	nf := r.Range(1, 3)
	s.Fields = nil
	for i := 0; i < nf; i++ {
		s.Fields = append(s.Fields, Field{Name: []string{"fa", "fb", "fc"}[i], Type: "int"})
	}
	for i := range s.NTs {
		s.NTs[i].Tag = s.Fields[r.Intn(nf)].Name
	}
	for i := range s.Terms {
		// a tag needs a declaration that can carry it: %token <tag>; literals that are only used in rules
		// and tokens that only appear in a precedence line stay untagged
		if r.Chance(3, 4) && s.Terms[i].Decl == DeclToken {
			s.Terms[i].Tag = s.Fields[r.Intn(nf)].Name
			s.Terms[i].TagByType = s.Terms[i].Name != "" && r.Chance(1, 5)
		} else {
			s.Terms[i].Tag = ""
		}
	}
	for i := range s.Rules {
		rl := &s.Rules[i]
		var refs []int
		for k, x := range rl.R {
			if s.TagOf(x) != "" {
				refs = append(refs, k+1)
			}
		}
		var e *Expr = &Expr{Op: 'k', K: r.Range(1, 97)}
		// reference every tagged position at least once in some rules, a random subset in others
		for _, k := range refs {
			if r.Chance(4, 5) {
				term := &Expr{Op: '*', L: &Expr{Op: 'd', K: k}, R: &Expr{Op: 'k', K: r.Range(2, 31)}}
				e = &Expr{Op: '+', L: e, R: term}
			}
		}
		// user code refers to its own package-level variables
		if r.Chance(1, 3) {
			g := UserGlobals[r.Intn(len(UserGlobals))]
			e = &Expr{Op: '+', L: e, R: &Expr{Op: 'g', S: g.Name, K: g.Val}}
		}
		rl.Act = e
		// some rules do not assign $$ at all: the value of their left-hand side is then the zero value
		if r.Chance(1, 6) {
			rl.Act = nil
		}
	}
}

// TokenMix: family F4 for C11. A flat grammar using every terminal once, with a
// random mix of declaration forms.
func TokenMix(r *rng.R) *Spec {
	s := &Spec{Family: "F4", StartDecl: true, Fields: []Field{{"fa", "int"}, {"fb", "int"}}}
	s.NTs = []NT{{Name: "S", Tag: "fa"}}
	n := r.Range(2, 9)
	names := uniqueNames(r.Sub("t"), termNames, n)
	lits := r.Sub("l").Perm(len(LitPool))
	usedCodes := map[int]bool{}
	li := 0
	var precCand []int
	for i := 0; i < n; i++ {
		var t Term
		switch r.Intn(6) {
		case 0: // literal declared with %token
			t = Term{Lit: LitPool[lits[li]], Decl: DeclToken}
			li++
		case 1: // literal only used
			t = Term{Lit: LitPool[lits[li]], Decl: DeclUseOnly}
			li++
		case 2: // named with explicit code
			t = Term{Name: names[i], Decl: DeclToken}
			for {
				c := r.Range(1, 400)
				if r.Chance(1, 5) {
					c = r.Range(1000, 70000)
				}
				if r.Chance(1, 8) {
					c = -r.Range(2, 50)
				}
				if r.Chance(1, 4) {
					c = int(LitPool[r.Intn(len(LitPool))]) // near / equal to a literal's code: only kept if that literal is not used
				}
				if !usedCodes[c] && c != -1 && c != 0 {
					t.Code = c
					usedCodes[c] = true
					break
				}
			}
		case 3: // named, declared only in a precedence line
			t = Term{Name: names[i], Decl: DeclPrecOnly}
			precCand = append(precCand, i)
		case 4: // named, redeclared to add a number
			t = Term{Name: names[i], Decl: DeclToken, Redecl: true, Code: 0}
			if r.Chance(1, 2) {
				for {
					c := r.Range(3, 300)
					if !usedCodes[c] {
						t.Code = c
						usedCodes[c] = true
						break
					}
				}
			}
		default:
			t = Term{Name: names[i], Decl: DeclToken}
		}
		if r.Chance(1, 2) {
			t.Tag = rng.Pick(r, []string{"fa", "fb"})
			t.TagByType = t.Name != "" && t.Decl == DeclToken && !t.Redecl && r.Chance(1, 4)
		}
		s.Terms = append(s.Terms, t)
	}
	// explicit codes must not equal a used literal's code (excluded don't-care)
	litCodes := map[int]bool{}
	for _, t := range s.Terms {
		if t.Name == "" {
			litCodes[int(t.Lit)] = true
		}
	}
	for i := range s.Terms {
		for s.Terms[i].Name != "" && s.Terms[i].Code != 0 && litCodes[s.Terms[i].Code] {
			s.Terms[i].Code += 1000
			for usedCodes[s.Terms[i].Code] {
				s.Terms[i].Code++
			}
			usedCodes[s.Terms[i].Code] = true
		}
	}
	// precedence lines: every prec-only token must appear in one; add some others
	for _, i := range precCand {
		s.Levels = append(s.Levels, Level{Assoc: r.Intn(3), Terms: []int{i}})
	}
	if r.Chance(1, 2) {
		i := r.Intn(n)
		in := false
		for _, p := range precCand {
			if p == i {
				in = true
			}
		}
		if !in {
			s.Levels = append(s.Levels, Level{Assoc: r.Intn(3), Terms: []int{i}})
		}
	}
	for i := range s.Terms {
		s.Rules = append(s.Rules, Rule{L: 0, R: []Sym{{I: i}}, Prec: -1, Act: &Expr{Op: 'k', K: i + 1}})
	}
	if r.Chance(1, 4) {
		s.EOFAlias = "EOFMARK"
	}
	return s
}

// Exhaustive enumerates family FX: all grammars with at most maxNT nonterminals
// (A, B), maxT terminals (a, b), at most maxRules rules, right-hand sides of
// length at most maxLen; every nonterminal has a rule; start = A. f is called for each.
func Exhaustive(maxNT, maxT, maxRules, maxLen int, f func(*Spec) bool) {
	for nn := 1; nn <= maxNT; nn++ {
		for nt := 1; nt <= maxT; nt++ {
			// all right-hand sides
			syms := []Sym{}
			for i := 0; i < nn; i++ {
				syms = append(syms, Sym{NT: true, I: i})
			}
			for i := 0; i < nt; i++ {
				syms = append(syms, Sym{I: i})
			}
			var rhss [][]Sym
			var gen func(cur []Sym)
			gen = func(cur []Sym) {
				rhss = append(rhss, append([]Sym(nil), cur...))
				if len(cur) == maxLen {
					return
				}
				for _, x := range syms {
					gen(append(cur, x))
				}
			}
			gen(nil)
			type pr struct {
				l   int
				rhs int
			}
			var all []pr
			for l := 0; l < nn; l++ {
				for k := range rhss {
					all = append(all, pr{l, k})
				}
			}
			// choose increasing index sequences of length nn..maxRules (a set of rules, in canonical order)
			var rec func(start int, cur []pr) bool
			rec = func(start int, cur []pr) bool {
				if len(cur) >= nn {
					has := make([]bool, nn)
					for _, p := range cur {
						has[p.l] = true
					}
					ok := true
					for _, h := range has {
						ok = ok && h
					}
					// every terminal used, to avoid counting the same grammar under a smaller nt
					usedT := make([]bool, nt)
					for _, p := range cur {
						for _, x := range rhss[p.rhs] {
							if !x.NT {
								usedT[x.I] = true
							}
						}
					}
					for _, u := range usedT {
						ok = ok && u
					}
					if ok {
						s := &Spec{Family: "FX", StartDecl: true, NoRec: true}
						for i := 0; i < nn; i++ {
							s.NTs = append(s.NTs, NT{Name: string(rune('A' + i))})
						}
						for i := 0; i < nt; i++ {
							s.Terms = append(s.Terms, Term{Name: string(rune('a' + i)), Decl: DeclToken})
						}
						for _, p := range cur {
							s.Rules = append(s.Rules, Rule{L: p.l, R: append([]Sym(nil), rhss[p.rhs]...), Prec: -1})
						}
						if !f(s) {
							return false
						}
					}
				}
				if len(cur) == maxRules {
					return true
				}
				for i := start; i < len(all); i++ {
					if !rec(i+1, append(cur, all[i])) {
						return false
					}
				}
				return true
			}
			if !rec(0, nil) {
				return
			}
		}
	}
}

// Unusable: family F5. Takes a usable base grammar and injects one defect.
// kind: "undefined" (a symbol that is neither a token nor defined by a rule),
// "norules" (a %type-declared nonterminal without rules), "unproductive"
// (self-recursive without base case), "mutual" (two nonterminals that only
// derive each other), "unreachable" (unproductive but not referenced),
// "start" (the start symbol itself is unproductive), "nullable-mix"
// (unproductive nonterminal next to nullable ones).
var UnusableKinds = []string{"undefined", "undefined-like-alias", "undefined-like-field", "undefined-case-of-token", "norules", "unproductive", "mutual", "unreachable", "start", "nullable-mix", "deep", "named-start", "named-start-inner"}

func MakeUnusable(base *Spec, kind string, r *rng.R) *Spec {
	s := base.Clone()
	s.Family = "F5:" + kind
	if len(s.Fields) == 0 {
		s.Fields = []Field{{"fa", "int"}}
	}
	newNT := func(name, tag string) int {
		s.NTs = append(s.NTs, NT{Name: name, Tag: tag})
		return len(s.NTs) - 1
	}
	someTerm := func() Sym { return Sym{I: r.Intn(len(s.Terms))} }
	// reference x from a random position of a random existing rule (early or late in the file)
	refFrom := func(x int) {
		ri := r.Intn(len(s.Rules))
		if r.Chance(1, 3) {
			ri = 0
		} else if r.Chance(1, 2) {
			ri = len(s.Rules) - 1
		}
		rl := &s.Rules[ri]
		pos := r.Intn(len(rl.R) + 1)
		nr := append([]Sym(nil), rl.R[:pos]...)
		nr = append(nr, Sym{NT: true, I: x})
		nr = append(nr, rl.R[pos:]...)
		rl.R = nr
		rl.Act = nil
	}
	switch kind {
	case "undefined":
		u := newNT("undef_sym", "")
		refFrom(u)
	case "undefined-like-alias", "undefined-like-field", "undefined-case-of-token":
		// an undefined symbol that is spelled like something else the file declares: a token's "string" alias, a %union
		// field, a token's name in the other letter case. None of these defines a grammar symbol.
		name := "undef_sym"
		tok := -1
		for ti, t := range s.Terms {
			if t.Name != "" && t.Decl == DeclToken && t.Code == 0 && !t.Redecl {
				tok = ti
				break
			}
		}
		switch {
		case kind == "undefined-like-alias" && tok >= 0:
			name = "identifier_" + strings.ToLower(s.Terms[tok].Name)
			s.Terms[tok].Alias = name
		case kind == "undefined-like-field":
			name = s.Fields[len(s.Fields)-1].Name
		case kind == "undefined-case-of-token" && tok >= 0:
			name = strings.ToLower(s.Terms[tok].Name)
			if name == s.Terms[tok].Name {
				name = strings.ToUpper(name)
			}
		}
		for _, n := range s.NTs {
			if n.Name == name {
				name = "undef_sym"
			}
		}
		for ti := range s.Terms {
			if s.Terms[ti].Name == name {
				name = "undef_sym"
			}
		}
		if name == "undef_sym" {
			s.Family = "F5:undefined"
		}
		u := newNT(name, "")
		refFrom(u)
	case "norules":
		u := newNT("typed_norules", s.Fields[0].Name)
		if r.Chance(1, 2) {
			refFrom(u)
		}
	case "unproductive":
		u := newNT("loop_u", "")
		s.Rules = append(s.Rules, Rule{L: u, R: []Sym{someTerm(), {NT: true, I: u}}, Prec: -1})
		if r.Chance(1, 2) {
			s.Rules = append(s.Rules, Rule{L: u, R: []Sym{{NT: true, I: u}, someTerm()}, Prec: -1})
		}
		refFrom(u)
	case "mutual":
		u := newNT("mut_u", "")
		v := newNT("mut_v", "")
		s.Rules = append(s.Rules, Rule{L: u, R: []Sym{{NT: true, I: v}, someTerm()}, Prec: -1},
			Rule{L: v, R: []Sym{someTerm(), {NT: true, I: u}}, Prec: -1})
		refFrom(u)
	case "unreachable":
		u := newNT("island_u", "")
		s.Rules = append(s.Rules, Rule{L: u, R: []Sym{{NT: true, I: u}, someTerm()}, Prec: -1})
	case "start":
		u := newNT("bad_start", "")
		s.Rules = append(s.Rules, Rule{L: u, R: []Sym{{NT: true, I: s.Start}, {NT: true, I: u}}, Prec: -1})
		s.Start = u
		s.StartDecl = true
	case "named-start":
		// the unproductive start symbol is literally called `start` (the documented default name)
		for i := range s.NTs {
			if s.NTs[i].Name == "start" {
				s.NTs[i].Name = "start_x"
			}
		}
		u := newNT("start", "")
		s.Rules = append(s.Rules, Rule{L: u, R: []Sym{{NT: true, I: u}, someTerm(), {NT: true, I: s.Start}}, Prec: -1},
			Rule{L: u, R: []Sym{someTerm(), {NT: true, I: u}, someTerm()}, Prec: -1})
		s.Start = u
		s.StartDecl = r.Chance(1, 2)
	case "named-start-inner":
		// a helper nonterminal called `start` without base case, next to an explicit %start
		for i := range s.NTs {
			if s.NTs[i].Name == "start" {
				s.NTs[i].Name = "start_x"
			}
		}
		u := newNT("start", "")
		s.Rules = append(s.Rules, Rule{L: u, R: []Sym{someTerm(), {NT: true, I: u}}, Prec: -1})
		s.StartDecl = true
		refFrom(u)
	case "nullable-mix":
		// E: | E x ; U: E U  (U needs itself although E is nullable)
		e := newNT("maybe_e", "")
		u := newNT("loop_n", "")
		s.Rules = append(s.Rules, Rule{L: e, Prec: -1}, Rule{L: e, R: []Sym{{NT: true, I: e}, someTerm()}, Prec: -1},
			Rule{L: u, R: []Sym{{NT: true, I: e}, {NT: true, I: u}}, Prec: -1})
		if r.Chance(1, 2) {
			s.Rules = append(s.Rules, Rule{L: u, R: []Sym{{NT: true, I: e}, {NT: true, I: e}, {NT: true, I: u}, {NT: true, I: e}}, Prec: -1})
		}
		refFrom(u)
	case "deep":
		// chain a: b ; b: c ; c: c x  referenced from the base
		a := newNT("chain_a", "")
		b := newNT("chain_b", "")
		c := newNT("chain_c", "")
		s.Rules = append(s.Rules, Rule{L: a, R: []Sym{{NT: true, I: b}}, Prec: -1}, Rule{L: b, R: []Sym{someTerm(), {NT: true, I: c}}, Prec: -1},
			Rule{L: c, R: []Sym{{NT: true, I: c}, someTerm()}, Prec: -1})
		refFrom(a)
	}
	return s
}

// ManyRules: a command-language grammar with 260-420 productions (rule indices beyond one byte), simple shapes so that
// generation stays fast:  prog: | prog cmd ; cmd: K_i arg_j ';' ... ; a handful of argument nonterminals.
func ManyRules(r *rng.R) *Spec { return ManyRulesN(r, r.Range(260, 420)) }

// ManyRulesN: n productions (about two parser states per production; the generator refuses 2000 states and more).
func ManyRulesN(r *rng.R, n int) *Spec {
	s := &Spec{Family: "many-rules", StartDecl: true, KnownLALR: true}
	s.NTs = []NT{{Name: "prog"}, {Name: "cmd"}}
	nargs := r.Range(3, 6)
	for i := 0; i < nargs; i++ {
		s.NTs = append(s.NTs, NT{Name: fmt.Sprintf("arg%d", i)})
	}
	nk := r.Range(36, 52) // keywords
	for i := 0; i < nk; i++ {
		s.Terms = append(s.Terms, Term{Name: fmt.Sprintf("K%d", i), Decl: DeclToken})
	}
	semi := len(s.Terms)
	s.Terms = append(s.Terms, Term{Lit: ';', Decl: DeclUseOnly})
	atoms := []int{}
	for _, n := range []string{"NUM", "STR", "IDENT", "REG"} {
		atoms = append(atoms, len(s.Terms))
		s.Terms = append(s.Terms, Term{Name: n, Decl: DeclToken})
	}
	s.Rules = append(s.Rules, Rule{L: 0, Prec: -1}, Rule{L: 0, R: []Sym{{NT: true, I: 0}, {NT: true, I: 1}}, Prec: -1})
	for a := 0; a < nargs; a++ {
		s.Rules = append(s.Rules, Rule{L: 2 + a, R: []Sym{{I: atoms[a%len(atoms)]}}, Prec: -1},
			Rule{L: 2 + a, R: []Sym{{I: atoms[(a+1)%len(atoms)]}, {I: atoms[a%len(atoms)]}}, Prec: -1})
	}
	for i := 0; len(s.Rules) < n; i++ {
		// cmd : K_a K_b? arg ... ';'   distinct first two keywords make every command unique
		a, b := i%nk, (i/nk)%nk
		rule := Rule{L: 1, R: []Sym{{I: a}, {I: b}}, Prec: -1}
		for k := 0; k < r.Intn(3); k++ {
			rule.R = append(rule.R, Sym{NT: true, I: 2 + r.Intn(nargs)})
		}
		rule.R = append(rule.R, Sym{I: semi})
		s.Rules = append(s.Rules, rule)
	}
	return s
}

// ManyShortRules: n productions  cmd : K_i ';'  (two parser states each, so that 530-600 productions stay well below
// the 2000-state limit): rule numbers beyond nine bits, all of them alternatives of one nonterminal.
func ManyShortRules(r *rng.R, n int) *Spec {
	s := &Spec{Family: "many-rules-512", StartDecl: true, KnownLALR: true}
	s.NTs = []NT{{Name: "prog"}, {Name: "cmd"}}
	for i := 0; i < n; i++ {
		s.Terms = append(s.Terms, Term{Name: fmt.Sprintf("KW%03d", i), Decl: DeclToken})
	}
	semi := len(s.Terms)
	s.Terms = append(s.Terms, Term{Lit: ';', Decl: DeclUseOnly})
	num := len(s.Terms)
	s.Terms = append(s.Terms, Term{Name: "NUM", Decl: DeclToken})
	s.Rules = append(s.Rules, Rule{L: 0, Prec: -1}, Rule{L: 0, R: []Sym{{NT: true, I: 0}, {NT: true, I: 1}}, Prec: -1})
	for i := 0; i < n; i++ {
		rule := Rule{L: 1, R: []Sym{{I: i}}, Prec: -1}
		if r.Chance(1, 4) {
			rule.R = append(rule.R, Sym{I: num})
		}
		rule.R = append(rule.R, Sym{I: semi})
		s.Rules = append(s.Rules, rule)
	}
	return s
}

// ManySymbols: a command language with more than 256 grammar symbols (262-300 keyword tokens, all of them expected in
// the statement-start state), one command per keyword: symbol ids beyond one byte, table rows wider than 256 columns.
func ManySymbols(r *rng.R) *Spec {
	s := &Spec{Family: "many-symbols", StartDecl: true, KnownLALR: true}
	s.NTs = []NT{{Name: "prog"}, {Name: "cmd"}, {Name: "val"}, {Name: "zlist"}}
	nk := r.Range(262, 300)
	for i := 0; i < nk; i++ {
		s.Terms = append(s.Terms, Term{Name: fmt.Sprintf("K%03d", i), Decl: DeclToken})
	}
	lit := func(c byte) int {
		s.Terms = append(s.Terms, Term{Lit: c, Decl: DeclUseOnly})
		return len(s.Terms) - 1
	}
	lp, rp, semi, comma := lit('('), lit(')'), lit(';'), lit(',')
	num := len(s.Terms)
	s.Terms = append(s.Terms, Term{Name: "NUM", Decl: DeclToken})
	T := func(i int) Sym { return Sym{I: i} }
	N := func(i int) Sym { return Sym{NT: true, I: i} }
	s.Rules = append(s.Rules, Rule{L: 0, Prec: -1}, Rule{L: 0, R: []Sym{N(0), N(1)}, Prec: -1},
		Rule{L: 2, R: []Sym{T(num)}, Prec: -1}, Rule{L: 2, R: []Sym{T(lp), N(3), T(rp)}, Prec: -1},
		Rule{L: 3, R: []Sym{N(2)}, Prec: -1}, Rule{L: 3, R: []Sym{N(3), T(comma), N(2)}, Prec: -1})
	for i := 0; i < nk; i++ {
		rule := Rule{L: 1, R: []Sym{T(i)}, Prec: -1}
		switch r.Intn(3) {
		case 0:
			rule.R = append(rule.R, N(2))
		case 1:
			rule.R = append(rule.R, T(lp), N(2), T(rp))
		}
		rule.R = append(rule.R, T(semi))
		s.Rules = append(s.Rules, rule)
	}
	return s
}

// DenseOps: k independent expression languages, each with m binary operators on m precedence levels, selected by a
// leading keyword:  top: KW_i e_i ;  e_i: e_i OP_i_j e_i | ATOM_i .  Rows of the states "e op e ." are dense (one
// shift or reduce per operator), so the packed vectors get long: about k*m*m/2 explicit entries in roughly 2*k*m states.
func DenseOps(k, m int) *Spec {
	s := &Spec{Family: "dense-ops", StartDecl: true, Fields: []Field{{"fa", "int"}}}
	s.NTs = []NT{{Name: "top", Tag: "fa"}}
	for i := 0; i < k; i++ {
		s.NTs = append(s.NTs, NT{Name: fmt.Sprintf("e%d", i), Tag: "fa"})
	}
	for i := 0; i < k; i++ {
		kw := len(s.Terms)
		s.Terms = append(s.Terms, Term{Name: fmt.Sprintf("KW%d", i), Decl: DeclToken})
		atom := len(s.Terms)
		s.Terms = append(s.Terms, Term{Name: fmt.Sprintf("ATOM%d", i), Decl: DeclToken, Tag: "fa"})
		s.Rules = append(s.Rules, Rule{L: 0, R: []Sym{{I: kw}, {NT: true, I: 1 + i}}, Prec: -1, Act: &Expr{Op: 'd', K: 2}})
		s.Rules = append(s.Rules, Rule{L: 1 + i, R: []Sym{{I: atom}}, Prec: -1, Act: &Expr{Op: 'd', K: 1}})
		for j := 0; j < m; j++ {
			op := len(s.Terms)
			s.Terms = append(s.Terms, Term{Name: fmt.Sprintf("OP%d_%d", i, j), Decl: DeclPrecOnly})
			s.Levels = append(s.Levels, Level{Assoc: j % 2, Terms: []int{op}})
			s.Rules = append(s.Rules, Rule{L: 1 + i, R: []Sym{{NT: true, I: 1 + i}, {I: op}, {NT: true, I: 1 + i}}, Prec: -1,
				Act: &Expr{Op: '+', L: &Expr{Op: '*', L: &Expr{Op: 'd', K: 1}, R: &Expr{Op: 'k', K: 3}}, R: &Expr{Op: 'd', K: 3}}})
		}
	}
	return s
}

// BlockCommands: n block commands  K_i '(' expr ')' stmt K_{i+1} expr ';'  plus assignments, blocks and a small
// expression language. Every statement-start state has one shift per keyword, so with n around 120 the automaton has
// about 1000 states and the packed action vector far more than 10 000 entries (a single line of > 64 KiB of text).
func BlockCommands(n int) *Spec {
	src := "%left '+' '-' ; %left '*' '/' ; prog: | prog stmt ; stmt: ID '=' expr ';' | '{' prog '}'"
	for i := 0; i < n; i++ {
		src += fmt.Sprintf(" | K%d '(' expr ')' stmt K%d expr ';'", i, (i+1)%n)
	}
	src += " ; expr: expr '+' expr | expr '-' expr | expr '*' expr | expr '/' expr | '(' expr ')' | NUM | ID"
	s := MustDSL(src)
	s.Family = "block-commands"
	return s
}

// reservedWord: names that cannot be token names because the generated file declares a constant of that name
// (keywords and predeclared identifiers of Go and TypeScript) - a documented don't-care, not generated.
var reservedWord = map[string]bool{}

func init() {
	for _, w := range strings.Fields(`break case chan const continue default defer else fallthrough for func go goto if import interface map
		package range return select struct switch type var true false nil iota int string len cap new make append copy delete panic print println
		abstract any as async await boolean class constructor debugger declare do enum export extends finally from function get implements
		in instanceof is let module namespace never null number object of private protected public readonly require set static super symbol
		this throw try typeof undefined unique unknown void while with yield then id num str`) {
		reservedWord[w] = true
	}
}
