package wl

import (
	"fmt"
	"strings"

	"github.com/acekingke/yaccgo/verifsim/rng"
)

// Variant is one documented output variant.
type Variant struct {
	Lang   string `json:"lang"` // "go" | "ts"
	Unpack bool   `json:"unpack,omitempty"`
	Object bool   `json:"object,omitempty"`
	// Http: `generate go -d` (the web debugger build of the parser). Only generated (C14), never compiled or run.
	Http bool `json:"http,omitempty"`
}

func (v Variant) String() string {
	if v.Lang == "ts" {
		return "typescript"
	}
	s := "go"
	if v.Object {
		s += "-o"
	}
	if v.Unpack {
		s += "-u"
	}
	if v.Http {
		s += "-d"
	}
	return s
}

var AllVariants = []Variant{
	{Lang: "go"}, {Lang: "go", Unpack: true}, {Lang: "go", Object: true}, {Lang: "go", Object: true, Unpack: true}, {Lang: "ts"},
}
var GoVariants = AllVariants[:4]

const (
	EpiNone    = iota // no epilogue at all (generator-only checks)
	EpiMinimal        // just GetToken, exactly what C16 states
	EpiFull           // GetToken + hooks the engine-B driver uses
	// EpiFullBoot: EpiFull plus a parse of the empty input from a package-level initialiser (C15 only: a parser that
	// loops there cannot be stopped by the driver's budgets or watchdog, the driver dies and the check exits 2)
	EpiFullBoot
)

type RenderOpts struct {
	Variant Variant
	Pkg     string // Go package name
	Epi     int
	Layout  *rng.R // nil = canonical layout
}

func (e *Expr) render(s *Spec, r *Rule) string {
	switch e.Op {
	case 'k':
		return fmt.Sprint(e.K)
	case 'q':
		if strings.Contains(e.S, "\n") {
			// a text spanning several lines: a Go raw string / TypeScript template literal, copied as it is written
			return "`" + e.S + "`"
		}
		return fmt.Sprintf("%q", e.S)
	case 'd':
		return fmt.Sprintf("$%d", e.K)
	case 'g':
		return e.S
	case '+', '*':
		return "(" + e.L.render(s, r) + " " + string(e.Op) + " " + e.R.render(s, r) + ")"
	case 'c':
		var p []string
		for _, x := range e.Parts {
			p = append(p, x.render(s, r))
		}
		return strings.Join(p, " + ")
	}
	panic("bad expr")
}

// ActionText renders the action of rule i (0-based in Spec; yaccgo's rule number is i+1).
func (s *Spec) ActionText(i int) string {
	if t, ok := s.RawActions[i]; ok {
		return t
	}
	r := &s.Rules[i]
	var parts []string
	if r.Act != nil && s.NTs[r.L].Tag != "" {
		e := r.Act.render(s, r)
		if s.FieldType(s.NTs[r.L].Tag) == "int" {
			e = fmt.Sprintf("%s %% %d", e, Modulus)
		}
		parts = append(parts, "$$ = "+e)
	}
	if !s.NoRec {
		parts = append(parts, fmt.Sprintf("Rec(%d)", i+1))
	}
	if s.ActionNotes && i%3 == 1 {
		// what people write into actions: a remark in their own language, of varying length (so that any fixed byte
		// offset falls inside a multi-byte character for some rule)
		note := "сумма элементов списка — 合計を計算する; größer als nötig, aber völlig harmlos für den Parser (it isn't code)"
		parts = append(parts, "/* "+strings.Repeat("z", i%5)+note+" */")
	}
	return strings.Join(parts, "; ")
}

type layouter struct {
	r *rng.R
	n int
}

// ws returns inter-token space: in the canonical layout a single blank.
func (l *layouter) ws() string {
	if l.r == nil {
		return " "
	}
	l.n++
	switch l.r.Intn(14) {
	case 0:
		return "\t"
	case 1:
		return "\n"
	case 2:
		return "  "
	case 3:
		// (the closing mark written the way people write it: */, **/ after a starred box, /**/ for an empty one)
		return fmt.Sprintf(" /* c%d %s ", l.n, []string{"*/", "*/", "**/", "* * ***/", "*/ /**/"}[l.n%5])
	case 4:
		return fmt.Sprintf(" // c%d\n", l.n)
	case 5:
		return "\n\t"
	case 6:
		return fmt.Sprintf("\n/* multi\n line %d */\n", l.n)
	}
	return " "
}

func (l *layouter) nl() string {
	if l.r == nil {
		return "\n"
	}
	switch l.r.Intn(6) {
	case 0:
		return "\n\n"
	case 1:
		return fmt.Sprintf(" // eol %d\n", l.n)
	case 2:
		return "\n\t\n"
	}
	return "\n"
}

// codeStr writes an explicit token number; some layouts zero-pad it (a column-aligned table of numbers dictated by an
// existing scanner): the number is decimal whatever its leading zeros.
func (l *layouter) codeStr(c int) string {
	if c > 0 && l.chance(1, 5) {
		return fmt.Sprintf("%0*d", len(fmt.Sprint(c))+1+l.r.Intn(3), c)
	}
	return fmt.Sprint(c)
}

func (l *layouter) chance(num, den int) bool {
	if l.r == nil {
		return false
	}
	return l.r.Chance(num, den)
}

// Render produces the grammar file text.
func Render(s *Spec, o RenderOpts) string {
	l := &layouter{r: o.Layout}
	var b strings.Builder
	v := o.Variant
	// ---- prologue
	if v.Lang == "go" {
		pkg := o.Pkg
		if pkg == "" {
			pkg = "main"
		}
		extra := ""
		if l.chance(1, 4) {
			// the closing mark of the prologue glued to other text (in comments and in a string) is ordinary code
			extra = "\n// the code between %{...%}, copied verbatim; e.g. {42%}.\nvar _ = \"{%d%%}\"\n"
		}
		b.WriteString("%{\npackage " + pkg + "\n\nimport \"fmt\"\n" + extra + "%}\n")
	} else {
		extra := ""
		if l.chance(1, 4) {
			extra = "// the code between %{...%}, copied verbatim; e.g. {42%}.\nvar _unused = \"{%d%%}\"\n"
		}
		b.WriteString("%{\n// typescript prologue\n" + extra + "%}\n")
	}
	// ---- union
	if len(s.Fields) > 0 && l.chance(1, 4) {
		// the whole union on one line
		b.WriteString("%union { ")
		for i, f := range s.Fields {
			if i > 0 {
				b.WriteString("; ")
			}
			if v.Lang == "go" {
				b.WriteString(f.Name + " " + f.Type)
			} else {
				t := "number"
				if f.Type == "string" {
					t = "string"
				}
				b.WriteString(f.Name + " :" + t)
			}
		}
		b.WriteString(" }\n")
	} else if len(s.Fields) > 0 {
		b.WriteString("%union {\n")
		for _, f := range s.Fields {
			if v.Lang == "go" {
				b.WriteString("\t" + f.Name + " " + f.Type + "\n")
			} else {
				t := "number"
				if f.Type == "string" {
					t = "string"
				}
				b.WriteString("\t" + f.Name + " :" + t + ";\n")
			}
		}
		b.WriteString("}\n")
	}
	// ---- declarations. Blocks: token decls, type decls, prec levels (ordered), start.
	type block struct {
		text string
		prec int // >=0: precedence level index (relative order must be kept)
	}
	var blocks []block
	precOnly := map[int]bool{}
	for ti, t := range s.Terms {
		switch t.Decl {
		case DeclToken:
			d := "%token"
			if t.Tag != "" && !t.Redecl && !t.TagByType {
				d += l.ws() + "<" + t.Tag + ">"
			}
			d += l.ws() + t.Key()
			if t.Code != 0 && t.Name != "" && !t.Redecl {
				d += l.ws() + l.codeStr(t.Code)
			} else if t.Name != "" && !t.Redecl && t.Alias != "" {
				d += l.ws() + fmt.Sprintf("%q", t.Alias)
			} else if t.Name != "" && !t.Redecl && l.chance(1, 6) {
				// a string alias, as in `%token ID "identifier"` (documented in Parser.go); purely decorative
				aliases := []string{`"alias of ` + t.Name + `"`, `"\n"`, `"a\tb"`, `"say \"` + t.Name + `\""`, `"back\\slash"`, `"<="`}
				d += l.ws() + aliases[l.r.Intn(len(aliases))]
			}
			if t.Redecl {
				// %token <tag> X   then   %token X n
				first := "%token"
				if t.Tag != "" {
					first += l.ws() + "<" + t.Tag + ">"
				}
				first += l.ws() + t.Key()
				blocks = append(blocks, block{first, -1})
				d = "%token" + l.ws() + t.Key()
				if t.Code != 0 {
					d += l.ws() + l.codeStr(t.Code)
				}
			}
			blocks = append(blocks, block{d, -1})
			if t.Tag != "" && t.TagByType && !t.Redecl && t.Name != "" {
				blocks = append(blocks, block{"%type" + l.ws() + "<" + t.Tag + ">" + l.ws() + t.Name, -1})
			}
		case DeclPrecOnly:
			precOnly[ti] = true
		}
	}
	if s.EOFAlias != "" {
		blocks = append(blocks, block{"%token" + l.ws() + s.EOFAlias + l.ws() + "-1", -1})
	}
	lastTypeTag := ""
	for _, nt := range s.NTs {
		if nt.Tag != "" {
			// several names per %type line when they share the tag
			if n := len(blocks); n > 0 && lastTypeTag == nt.Tag && strings.HasPrefix(blocks[n-1].text, "%type") && l.chance(1, 2) {
				blocks[n-1].text += l.ws() + nt.Name
				continue
			}
			blocks = append(blocks, block{"%type" + l.ws() + "<" + nt.Tag + ">" + l.ws() + nt.Name, -1})
			lastTypeTag = nt.Tag
		}
	}
	usedInRhs := map[int]bool{}
	for _, t := range s.UsedTerms() {
		usedInRhs[t] = true
	}
	for li, lv := range s.Levels {
		d := []string{"%left", "%right", "%nonassoc"}[lv.Assoc]
		if l.chance(1, 2) {
			// a level of pseudo-tokens (named by %prec only, never part of a right-hand side, so never a lookahead):
			// its associativity can never be consulted and the manual's fourth keyword says the same thing
			pseudo := true
			for _, t := range lv.Terms {
				if usedInRhs[t] {
					pseudo = false
				}
			}
			if pseudo {
				d = "%precedence"
			}
		}
		// a tag on the precedence line declares the tag for tokens first declared here
		tag := ""
		for _, t := range lv.Terms {
			if precOnly[t] && s.Terms[t].Tag != "" {
				tag = s.Terms[t].Tag
			}
		}
		if tag == "" && len(s.Fields) > 0 && l.chance(1, 4) {
			// the typed form of a precedence line; the tag only applies to tokens first declared here and none of
			// them is referenced through $n, so it changes nothing that is observed
			allPrecOnlyUntagged := true
			for _, t := range lv.Terms {
				if !precOnly[t] {
					continue
				}
				if s.Terms[t].Tag != "" {
					allPrecOnlyUntagged = false
				}
			}
			if allPrecOnlyUntagged {
				tag = s.Fields[0].Name
			}
		}
		if tag != "" {
			d += l.ws() + "<" + tag + ">"
		}
		for _, t := range lv.Terms {
			d += l.ws() + s.Terms[t].Key()
		}
		blocks = append(blocks, block{d, li})
	}
	if s.StartDecl {
		blocks = append(blocks, block{"%start" + l.ws() + s.NTs[s.Start].Name, -1})
	}
	// shuffle blocks keeping: precedence levels in relative order, and a token's
	// %token before a level that mentions it is not required by yaccgo (a level may
	// declare), but a Redecl pair keeps its order because both are adjacent in `blocks`
	// and we only move non-prec blocks as units.
	if l.r != nil && l.r.Chance(1, 2) {
		var precs, others []block
		for _, bl := range blocks {
			if bl.prec >= 0 {
				precs = append(precs, bl)
			} else {
				others = append(others, bl)
			}
		}
		// keep "others" in order (redecl pairs, tags) but interleave the precedence levels at random points
		var out []block
		pi := 0
		for _, ob := range others {
			for pi < len(precs) && l.r.Chance(1, 4) {
				out = append(out, precs[pi])
				pi++
			}
			out = append(out, ob)
		}
		out = append(out, precs[pi:]...)
		blocks = out
	}
	// several tokens in one %token declaration (same tag): "%token <t> A 300 B" - legal yacc, merges adjacent lines
	if l.r != nil {
		var merged []block
		for _, bl := range blocks {
			if n := len(merged); n > 0 && bl.prec < 0 && merged[n-1].prec < 0 && l.r.Chance(1, 2) {
				if tail, ok := mergeTokenDecl(merged[n-1].text, bl.text); ok {
					merged[n-1].text = tail
					continue
				}
			}
			merged = append(merged, bl)
		}
		blocks = merged
	}
	for _, bl := range blocks {
		b.WriteString(bl.text + l.nl())
	}
	b.WriteString("%%" + l.nl())
	// ---- rules
	i := 0
	for i < len(s.Rules) {
		r := s.Rules[i]
		b.WriteString(s.NTs[r.L].Name + l.ws() + ":")
		for {
			r = s.Rules[i]
			// a block in the middle of a right part (the yacc idiom for a side effect at that point): yaccgo keeps the
			// symbols around it and takes the LAST block as the rule's action, so a block that does nothing is neutral
			mid := -1
			if len(r.R) >= 2 && l.chance(1, 8) {
				mid = l.r.Intn(len(r.R) - 1)
			}
			for k, x := range r.R {
				b.WriteString(l.ws() + s.SymName(x))
				if k == mid {
					b.WriteString(l.ws() + "{ /* mid-rule note */ }")
				}
			}
			if r.Prec >= 0 {
				b.WriteString(l.ws() + "%prec" + l.ws() + s.Terms[r.Prec].Key())
			}
			if a := s.ActionText(i); a != "" {
				b.WriteString(l.ws() + "{ " + a + " }")
			} else if l.chance(1, 3) {
				b.WriteString(l.ws() + "{ }")
			}
			i++
			// continue with '|' when the next rule has the same lhs (canonical: always; layout: mostly)
			if i < len(s.Rules) && s.Rules[i].L == r.L && (l.r == nil || !l.r.Chance(1, 4)) {
				b.WriteString(l.ws() + "|")
				continue
			}
			break
		}
		// terminator: optional unless canonical
		if l.r == nil || !l.r.Chance(1, 3) {
			b.WriteString(l.ws() + ";")
		}
		b.WriteString(l.nl())
	}
	b.WriteString("%%\n")
	b.WriteString(Epilogue(s, o))
	return b.String()
}

// Epilogue returns the user code section for the variant.
func Epilogue(s *Spec, o RenderOpts) string {
	if o.Epi == EpiNone {
		return "// no epilogue\n"
	}
	// user code after the second %% may itself contain the two characters %% (a format string, a comment)
	extra := ""
	if o.Layout != nil && len(s.Rules)%3 == 1 {
		if o.Variant.Lang == "go" {
			extra = "\n// everything after the second %% mark is copied verbatim\nvar _ = \"100%%\"\n"
		} else {
			extra = "\n// everything after the second %% mark is copied verbatim\nvar _pct = \"100%%\";\n"
		}
	}
	if o.Variant.Lang == "go" {
		return goEpilogue(s, o) + extra
	}
	return tsEpilogue(s, o) + extra
}

func startTag(s *Spec) string {
	if len(s.NTs) == 0 {
		return ""
	}
	return s.NTs[s.Start].Tag
}

// token value injection: the field of the token's tag gets v, every other field
// a poisoned value, so that reading the wrong field is observable.
func goTokenCases(s *Spec) string {
	var b strings.Builder
	for ti, t := range s.Terms {
		fmt.Fprintf(&b, "\tcase %d:\n", ti)
		for fi, f := range s.Fields {
			if f.Type == "int" {
				if f.Name == t.Tag {
					fmt.Fprintf(&b, "\t\tval.%s = v\n", f.Name)
				} else {
					fmt.Fprintf(&b, "\t\tval.%s = v + %d\n", f.Name, 500000+1000*(fi+1))
				}
			} else {
				if f.Name == t.Tag {
					fmt.Fprintf(&b, "\t\tval.%s = fmt.Sprint(\"t\", v)\n", f.Name)
				} else {
					fmt.Fprintf(&b, "\t\tval.%s = fmt.Sprint(\"bad%d_\", v)\n", f.Name, fi)
				}
			}
		}
		fmt.Fprintf(&b, "\t\treturn %s\n", t.Key())
	}
	return b.String()
}

func goEOF(s *Spec) string {
	if s.EOFAlias != "" {
		return s.EOFAlias
	}
	return "-1"
}

func goEpilogue(s *Spec, o RenderOpts) string {
	var b strings.Builder
	if o.Epi == EpiMinimal {
		eof := "-1"
		if s.EOFAlias != "" {
			eof = s.EOFAlias
		}
		b.WriteString("func GetToken(input string, val *ValType, pos *int) int {\n\t_ = fmt.Sprint\n\treturn " + eof + "\n}\n")
		for _, g := range UserGlobals {
			b.WriteString(fmt.Sprintf("var %s = %d\n", g.Name, g.Val))
		}
		if !s.NoRec {
			b.WriteString("func Rec(r int) {}\n")
		}
		return b.String()
	}
	b.WriteString("var HookNext func(string, int) (int, int)\nvar HookRec func(int)\n\nvar vbootSteps int\n\nfunc Rec(r int) {\n\tif HookRec != nil {\n\t\tHookRec(r)\n\t\treturn\n\t}\n\tif vbootSteps++; vbootSteps > 3000 {\n\t\tpanic(\"boot parse: step budget\")\n\t}\n}\n\n")
	for _, g := range UserGlobals {
		b.WriteString(fmt.Sprintf("var %s = %d\n", g.Name, g.Val))
	}
	// the value the parser hands to the lexer is reported to the environment before it is overwritten:
	// at the first token of a parse it must not carry anything over from an earlier parse
	incoming := "0"
	for _, f := range s.Fields {
		if f.Type == "int" {
			incoming = "val." + f.Name
			break
		}
	}
	b.WriteString("func GetToken(input string, val *ValType, pos *int) int {\n\tif HookNext == nil {\n\t\tif vbootSteps++; vbootSteps > 3000 {\n\t\t\tpanic(\"boot parse: step budget\")\n\t\t}\n\t\treturn " + goEOF(s) + " // no environment yet (a parse during package initialisation): empty input\n\t}\n\tidx, v := HookNext(input, " + incoming + ")\n\t_ = v\n\t*pos++ // the cursor is the lexer's own: here it counts the tokens handed out\n\t*val = ValType{}\n\tswitch idx {\n\tcase -1:\n\t\treturn " + goEOF(s) + "\n\tcase -2:\n\t\treturn v\n")
	b.WriteString(goTokenCases(s))
	b.WriteString("\t}\n\treturn -1\n}\n\n")
	st := startTag(s)
	ret := "0"
	if st != "" {
		ret = "r." + st
	}
	if o.Variant.Object {
		b.WriteString("func VNew() interface{} { return MakeParserContext() }\n")
		b.WriteString("func VInit(c interface{}) { c.(*Context).ParserInit() }\n")
		b.WriteString("func VParse(c interface{}, input string) (interface{}, bool) {\n\tr := c.(*Context).Parser(input)\n\tif r == nil {\n\t\treturn nil, false\n\t}\n\treturn " + ret + ", true\n}\n")
	} else {
		b.WriteString("func VNew() interface{} { return nil }\n")
		b.WriteString("func VInit(c interface{}) { ParserInit() }\n")
		b.WriteString("func VParse(c interface{}, input string) (interface{}, bool) {\n\tr := Parser(input)\n\tif r == nil {\n\t\treturn nil, false\n\t}\n\treturn " + ret + ", true\n}\n")
	}
	// a parse performed from a package-level initialiser (constants computed by the parser at start-up): the empty input
	bootInit, bootParse := "ParserInit()", "Parser(\"\")"
	if o.Variant.Object {
		bootInit, bootParse = "c := MakeParserContext()", "c.Parser(\"\")"
	}
	if s.NoRec || o.Epi != EpiFullBoot {
		// actions that never call the environment cannot be bounded before the driver's watchdog exists: no boot parse
		bootInit = "if true {\n\t\treturn \"skipped\"\n\t}\n\t" + bootInit
	}
	b.WriteString("var VBootResult = vboot()\n\nfunc vboot() (out string) {\n\tdefer func() {\n\t\tif e := recover(); e != nil {\n\t\t\tout = \"panic: \" + fmt.Sprint(e)\n\t\t}\n\t}()\n\t" + bootInit + "\n\tif r := " + bootParse + "; r == nil {\n\t\treturn \"nil\"\n\t}\n\treturn \"accept\"\n}\nfunc VBoot() string { return VBootResult }\n")
	b.WriteString("func VConsts() map[string]int {\n\treturn map[string]int{\n")
	if s.EOFAlias != "" {
		b.WriteString(fmt.Sprintf("\t\t%q: %s,\n", s.EOFAlias, s.EOFAlias))
	}
	for _, t := range s.Terms {
		if t.Name != "" {
			b.WriteString(fmt.Sprintf("\t\t%q: %s,\n", t.Name, t.Name))
		}
	}
	b.WriteString("\t}\n}\n")
	b.WriteString("func VAction(s, a int) int { return (&StateSym{Yystate: s}).Action(a) }\n")
	b.WriteString("func VTranslate(c int) int { return translate(c) }\n")
	b.WriteString("func VTrace(on bool) { IsTrace = on }\n")
	b.WriteString("func VErrAcc() (int, int) { return ERROR_ACTION, ACCEPT_ACTION }\n")
	return b.String()
}

func tsEpilogue(s *Spec, o RenderOpts) string {
	var b strings.Builder
	if o.Epi == EpiMinimal {
		b.WriteString("function GetToken(input :string, model:{ValType :ValType, pos :number}) :number {\n\treturn " + goEOF(s) + "\n}\n")
		for _, g := range UserGlobals {
			b.WriteString(fmt.Sprintf("var %s = %d;\n", g.Name, g.Val))
		}
		if !s.NoRec {
			b.WriteString("function Rec(r :number) {}\n")
		}
		return b.String()
	}
	b.WriteString("function Rec(r :number) { HookRec(r) }\n")
	for _, g := range UserGlobals {
		b.WriteString(fmt.Sprintf("var %s = %d;\n", g.Name, g.Val))
	}
	tsIncoming := "0"
	for _, f := range s.Fields {
		if f.Type == "int" {
			tsIncoming = "(model.ValType ? (model.ValType." + f.Name + " || 0) : 0)"
			break
		}
	}
	b.WriteString("function GetToken(input :string, model:{ValType :ValType, pos :number}) :number {\n\tlet nx = HookNext(" + tsIncoming + ")\n\tlet idx = nx[0]\n\tlet v = nx[1]\n\tmodel.ValType = new ValType()\n\tswitch (idx) {\n\tcase -1:\n\t\treturn " + goEOF(s) + "\n\tcase -2:\n\t\treturn v\n")
	for ti, t := range s.Terms {
		fmt.Fprintf(&b, "\tcase %d:\n", ti)
		for fi, f := range s.Fields {
			if f.Type == "int" {
				if f.Name == t.Tag {
					fmt.Fprintf(&b, "\t\tmodel.ValType.%s = v\n", f.Name)
				} else {
					fmt.Fprintf(&b, "\t\tmodel.ValType.%s = v + %d\n", f.Name, 500000+1000*(fi+1))
				}
			} else {
				if f.Name == t.Tag {
					fmt.Fprintf(&b, "\t\tmodel.ValType.%s = \"t\" + v\n", f.Name)
				} else {
					fmt.Fprintf(&b, "\t\tmodel.ValType.%s = \"bad%d_\" + v\n", f.Name, fi)
				}
			}
		}
		key := t.Key()
		if t.Name == "" {
			key = fmt.Sprint(int(t.Lit))
		}
		fmt.Fprintf(&b, "\t\treturn %s\n", key)
	}
	b.WriteString("\t}\n\treturn -1\n}\n")
	b.WriteString("function VConsts() {\n\treturn {")
	first := true
	if s.EOFAlias != "" {
		b.WriteString(s.EOFAlias + ": " + s.EOFAlias)
		first = false
	}
	for _, t := range s.Terms {
		if t.Name != "" {
			if !first {
				b.WriteString(", ")
			}
			first = false
			b.WriteString(t.Name + ": " + t.Name)
		}
	}
	b.WriteString("}\n}\n")
	return b.String()
}

// mergeTokenDecl joins "%token[ <tag>] X.." and "%token[ <tag>] Y.." into one declaration when both carry the same tag prefix.
func mergeTokenDecl(a, b string) (string, bool) {
	split := func(d string) (tag, rest string, ok bool) {
		if !strings.HasPrefix(d, "%token") {
			return "", "", false
		}
		d = d[len("%token"):]
		if strings.ContainsAny(d, "/\n\"") { // a comment, line break or alias string inside: leave alone
			return "", "", false
		}
		t := strings.TrimLeft(d, " \t")
		if strings.HasPrefix(t, "<") {
			i := strings.Index(t, ">")
			if i < 0 {
				return "", "", false
			}
			return t[:i+1], t[i+1:], true
		}
		return "", d, true
	}
	ta, ra, ok1 := split(a)
	tb, rb, ok2 := split(b)
	if !ok1 || !ok2 || ta != tb {
		return "", false
	}
	// NAME 'c' would declare 'c' as an alias of NAME, not as a token of its own
	if strings.HasPrefix(strings.TrimSpace(rb), "'") {
		return "", false
	}
	_ = ra
	return a + " " + strings.TrimSpace(rb), true
}
