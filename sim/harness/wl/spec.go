// Package wl: workloads. An abstract grammar Spec is what the references work
// on; Render turns it into .y text in one of many legal layouts.
package wl

import (
	"fmt"
	"sort"
	"strings"
)

const (
	DeclToken    = iota // declared with %token
	DeclPrecOnly        // declared only by appearing in %left/%right/%nonassoc
	DeclUseOnly         // character literal that is only used in a rule
)

const (
	AssocLeft = iota
	AssocRight
	AssocNon
)

type Term struct {
	Name string `json:"name,omitempty"` // identifier; "" for a character literal
	Lit  byte   `json:"lit,omitempty"`
	Code int    `json:"code,omitempty"` // explicit token number, 0 = automatic
	Tag  string `json:"tag,omitempty"`
	Decl int    `json:"decl,omitempty"`
	// TagByType: the tag is given by a separate `%type <tag> NAME` line (classic yacc style) instead of `%token <tag>`
	TagByType bool `json:"tag_by_type,omitempty"`
	// Redeclare: declared twice (%token <tag> X, then %token X n) as examples/exprobj.y does
	Redecl bool `json:"redecl,omitempty"`
	// Alias: a "string" alias that every layout writes after the name (only for tokens without an explicit number)
	Alias string `json:"alias,omitempty"`
}

// Key is how the symbol is written in the grammar file.
func (t Term) Key() string {
	if t.Name != "" {
		return t.Name
	}
	if t.Lit == '\'' {
		return `'\'` // yaccgo's own spelling of the quote character (its lexer takes exactly this form)
	}
	return "'" + string(t.Lit) + "'"
}

// YName is yaccgo's internal symbol name.
func (t Term) YName() string {
	if t.Name != "" {
		return t.Name
	}
	return "$operator" + string(t.Lit)
}

// Shown is how the generated trace / listing shows the symbol.
func (t Term) Shown() string {
	if t.Name != "" {
		return t.Name
	}
	return "'" + string(t.Lit) + "' "
}

type NT struct {
	Name string `json:"name"`
	Tag  string `json:"tag,omitempty"`
}

type Sym struct {
	NT bool `json:"nt,omitempty"`
	I  int  `json:"i"`
}

// Expr is an action expression over $i and constants.
//
//	Op 'k' constant K; 'd' $K; '+', '*' binary; 'c' string concat of Parts; 'g' a user global S with value K
type Expr struct {
	Op    byte    `json:"op"`
	K     int     `json:"k,omitempty"`
	S     string  `json:"s,omitempty"`
	L     *Expr   `json:"l,omitempty"`
	R     *Expr   `json:"r,omitempty"`
	Parts []*Expr `json:"parts,omitempty"`
}

const Modulus = 1000003

type Rule struct {
	L    int   `json:"l"`
	R    []Sym `json:"r"`
	Prec int   `json:"prec"` // terminal index named by %prec, -1 = none
	Act  *Expr `json:"act,omitempty"`
}

type Level struct {
	Assoc int   `json:"assoc"`
	Terms []int `json:"terms"`
}

type Field struct {
	Name string `json:"name"`
	Type string `json:"type"` // "int" or "string"
}

type Spec struct {
	Family    string  `json:"family"`
	Terms     []Term  `json:"terms"`
	NTs       []NT    `json:"nts"`
	Rules     []Rule  `json:"rules"`
	Levels    []Level `json:"levels,omitempty"`
	Start     int     `json:"start"`
	StartDecl bool    `json:"start_decl"` // false: rely on the default start symbol name `start`
	Fields    []Field `json:"fields,omitempty"`
	NoRec     bool    `json:"norec,omitempty"` // actions do not call Rec (generator-only workloads)
	// KnownLALR: conflict-free LALR(1) by construction (family many-rules); engine B does not recompute the canonical
	// LR(1) collection for it (the automaton-level checks do, for the same family)
	KnownLALR bool `json:"known_lalr,omitempty"`
	// EOFAlias, when set, declares `%token <EOFAlias> -1` (the idiom of examples/e.y): a named alias of the end marker
	// that user code may return from GetToken
	EOFAlias string `json:"eof_alias,omitempty"`
	// OpTab is set for operator tables (family F3): which terminals are binary / prefix operators, NUM and parentheses
	OpTab *OpTable `json:"optab,omitempty"`
	// RawActions, when set, replaces the rendered action of rule i by this text (C19 out-of-range $n etc.)
	RawActions map[int]string `json:"raw_actions,omitempty"`
	// ActionNotes: every third action carries a remark in Cyrillic / Japanese / German (multi-byte text inside actions)
	ActionNotes bool `json:"action_notes,omitempty"`
}

func (s *Spec) Clone() *Spec {
	c := *s
	c.Terms = append([]Term(nil), s.Terms...)
	c.NTs = append([]NT(nil), s.NTs...)
	c.Rules = make([]Rule, len(s.Rules))
	for i, r := range s.Rules {
		c.Rules[i] = r
		c.Rules[i].R = append([]Sym(nil), r.R...)
	}
	c.Levels = make([]Level, len(s.Levels))
	for i, l := range s.Levels {
		c.Levels[i] = Level{l.Assoc, append([]int(nil), l.Terms...)}
	}
	c.Fields = append([]Field(nil), s.Fields...)
	if s.RawActions != nil {
		c.RawActions = map[int]string{}
		for k, v := range s.RawActions {
			c.RawActions[k] = v
		}
	}
	return &c
}

func (s *Spec) SymName(x Sym) string {
	if x.NT {
		return s.NTs[x.I].Name
	}
	return s.Terms[x.I].Key()
}

// YSymName is the name yaccgo uses internally for x.
func (s *Spec) YSymName(x Sym) string {
	if x.NT {
		return s.NTs[x.I].Name
	}
	return s.Terms[x.I].YName()
}

func (s *Spec) RuleString(i int) string {
	r := s.Rules[i]
	var b strings.Builder
	b.WriteString(s.NTs[r.L].Name + " :")
	for _, x := range r.R {
		b.WriteString(" " + s.SymName(x))
	}
	if r.Prec >= 0 {
		b.WriteString(" %prec " + s.Terms[r.Prec].Key())
	}
	return b.String()
}

// Short is a compact one-line rendering for evidence samples and messages.
func (s *Spec) Short() string {
	var parts []string
	for _, l := range s.Levels {
		a := []string{"%left", "%right", "%nonassoc"}[l.Assoc]
		for _, t := range l.Terms {
			a += " " + s.Terms[t].Key()
		}
		parts = append(parts, a)
	}
	if len(s.NTs) > 0 {
		parts = append(parts, "%start "+s.NTs[s.Start].Name)
	}
	for i := range s.Rules {
		parts = append(parts, s.RuleString(i))
	}
	return strings.Join(parts, " ; ")
}

// TagOf returns the value tag of a symbol ("" = untagged).
func (s *Spec) TagOf(x Sym) string {
	if x.NT {
		return s.NTs[x.I].Tag
	}
	return s.Terms[x.I].Tag
}

func (s *Spec) FieldType(tag string) string {
	for _, f := range s.Fields {
		if f.Name == tag {
			return f.Type
		}
	}
	return ""
}

// ---------------------------------------------------------------- DSL

// FromDSL builds a Spec from a compact notation, e.g.
//
//	%left '+' ; %left '*' ; E: E '+' E | E '*' E | NUM
//
// Statements are separated by ';' or newlines. A symbol is a nonterminal iff
// it occurs as a left-hand side; 'c' is a character literal; `|` separates
// alternatives; an empty alternative is an empty rule; `%prec X` is allowed at
// the end of an alternative. The first left-hand side is the start symbol.
func FromDSL(src string) (*Spec, error) {
	s := &Spec{Family: "dsl", StartDecl: true}
	// tokenise: quoted literals are single words; bare ; | : and newlines are separators
	var words []string
	for i := 0; i < len(src); {
		c := src[i]
		switch {
		case c == ' ' || c == '\t' || c == '\r':
			i++
		case c == '\n' || c == ';':
			words = append(words, ";")
			i++
		case c == '|' || c == ':':
			words = append(words, string(c))
			i++
		case c == '\'':
			j := i + 1
			if j < len(src) && src[j] == '\\' {
				j++
			}
			j++ // the character
			if j >= len(src) || src[j] != '\'' {
				return nil, fmt.Errorf("dsl: bad literal at %d", i)
			}
			words = append(words, src[i:j+1])
			i = j + 1
		default:
			j := i
			for j < len(src) && !strings.ContainsRune(" \t\r\n;|:'", rune(src[j])) {
				j++
			}
			words = append(words, src[i:j])
			i = j
		}
	}
	var stmts [][]string
	var cur []string
	for _, w := range words {
		if w == ";" {
			if len(cur) > 0 {
				stmts = append(stmts, cur)
			}
			cur = nil
			continue
		}
		cur = append(cur, w)
	}
	if len(cur) > 0 {
		stmts = append(stmts, cur)
	}
	ntIdx := map[string]int{}
	for _, st := range stmts {
		if strings.HasPrefix(st[0], "%") {
			continue
		}
		if len(st) < 2 || st[1] != ":" {
			return nil, fmt.Errorf("dsl: no ':' in %q", strings.Join(st, " "))
		}
		if _, ok := ntIdx[st[0]]; !ok {
			ntIdx[st[0]] = len(s.NTs)
			s.NTs = append(s.NTs, NT{Name: st[0]})
		}
	}
	termIdx := map[string]int{}
	term := func(w string, decl int) int {
		if i, ok := termIdx[w]; ok {
			return i
		}
		t := Term{Decl: decl}
		if strings.HasPrefix(w, "'") && len(w) >= 3 {
			t.Lit = w[1]
			if w == `'\''` {
				t.Lit = '\''
			}
		} else {
			t.Name = w
		}
		termIdx[w] = len(s.Terms)
		s.Terms = append(s.Terms, t)
		return len(s.Terms) - 1
	}
	for _, st := range stmts {
		if strings.HasPrefix(st[0], "%") {
			switch st[0] {
			case "%left", "%right", "%nonassoc":
				lv := Level{Assoc: map[string]int{"%left": AssocLeft, "%right": AssocRight, "%nonassoc": AssocNon}[st[0]]}
				for _, w := range st[1:] {
					lv.Terms = append(lv.Terms, term(w, DeclPrecOnly))
				}
				s.Levels = append(s.Levels, lv)
			case "%token":
				for _, w := range st[1:] {
					term(w, DeclToken)
				}
			default:
				return nil, fmt.Errorf("dsl: unknown directive %q", st[0])
			}
			continue
		}
		l := ntIdx[st[0]]
		r := Rule{L: l, Prec: -1}
		f := st[2:]
		for k := 0; k <= len(f); k++ {
			if k == len(f) || f[k] == "|" {
				s.Rules = append(s.Rules, r)
				r = Rule{L: l, Prec: -1}
				continue
			}
			w := f[k]
			if w == "%prec" && k+1 < len(f) {
				r.Prec = term(f[k+1], DeclToken)
				k++
				continue
			}
			if n, ok := ntIdx[w]; ok {
				r.R = append(r.R, Sym{NT: true, I: n})
			} else {
				d := DeclToken
				if strings.HasPrefix(w, "'") {
					d = DeclUseOnly
				}
				r.R = append(r.R, Sym{I: term(w, d)})
			}
		}
	}
	if len(s.NTs) == 0 {
		return nil, fmt.Errorf("dsl: no rules")
	}
	return s, nil
}

func MustDSL(src string) *Spec {
	s, err := FromDSL(src)
	if err != nil {
		panic(err)
	}
	return s
}

// UsedTerms returns the sorted indices of terminals occurring in some rule.
func (s *Spec) UsedTerms() []int {
	m := map[int]bool{}
	for _, r := range s.Rules {
		for _, x := range r.R {
			if !x.NT {
				m[x.I] = true
			}
		}
	}
	var out []int
	for i := range m {
		out = append(out, i)
	}
	sort.Ints(out)
	return out
}

// Prune removes terminals and nonterminals that occur nowhere (rules, levels, start) and renumbers.
func (s *Spec) Prune() *Spec {
	c := s.Clone()
	usedT := make([]bool, len(c.Terms))
	usedN := make([]bool, len(c.NTs))
	if c.Start < len(usedN) {
		usedN[c.Start] = true
	}
	for _, r := range c.Rules {
		usedN[r.L] = true
		for _, x := range r.R {
			if x.NT {
				usedN[x.I] = true
			} else {
				usedT[x.I] = true
			}
		}
		if r.Prec >= 0 {
			usedT[r.Prec] = true
		}
	}
	mapT := make([]int, len(c.Terms))
	var nt []Term
	for i, t := range c.Terms {
		if usedT[i] {
			mapT[i] = len(nt)
			nt = append(nt, t)
		} else {
			mapT[i] = -1
		}
	}
	mapN := make([]int, len(c.NTs))
	var nn []NT
	for i, n := range c.NTs {
		if usedN[i] {
			mapN[i] = len(nn)
			nn = append(nn, n)
		} else {
			mapN[i] = -1
		}
	}
	if len(nt) != len(c.Terms) {
		c.OpTab = nil // terminal indices change: the operator-table description no longer applies
	}
	c.Terms, c.NTs = nt, nn
	c.Start = mapN[c.Start]
	for i := range c.Rules {
		r := &c.Rules[i]
		r.L = mapN[r.L]
		for k := range r.R {
			if r.R[k].NT {
				r.R[k].I = mapN[r.R[k].I]
			} else {
				r.R[k].I = mapT[r.R[k].I]
			}
		}
		if r.Prec >= 0 {
			r.Prec = mapT[r.Prec]
		}
	}
	var lv []Level
	for _, l := range c.Levels {
		var ts []int
		for _, t := range l.Terms {
			if mapT[t] >= 0 {
				ts = append(ts, mapT[t])
			}
		}
		if len(ts) > 0 {
			lv = append(lv, Level{l.Assoc, ts})
		}
	}
	c.Levels = lv
	return c
}

// Simpler returns specs that are one step simpler than s (fewer rules, shorter rules, fewer declarations).
func (s *Spec) Simpler() []*Spec {
	var out []*Spec
	// drop a rule (later ones first: keeps rule numbers of earlier rules)
	for i := len(s.Rules) - 1; i >= 0; i-- {
		c := s.Clone()
		c.Rules = append(c.Rules[:i], c.Rules[i+1:]...)
		if c.RawActions != nil {
			na := map[int]string{}
			for k, v := range c.RawActions {
				if k < i {
					na[k] = v
				} else if k > i {
					na[k-1] = v
				}
			}
			c.RawActions = na
		}
		out = append(out, c.Prune())
	}
	// drop a right-hand-side symbol
	for i := range s.Rules {
		for k := range s.Rules[i].R {
			c := s.Clone()
			r := &c.Rules[i]
			r.R = append(r.R[:k], r.R[k+1:]...)
			r.Act = simplifyAct(r.Act, k+1)
			out = append(out, c.Prune())
		}
	}
	// drop a precedence level, a %prec, an action, tags
	for i := range s.Levels {
		c := s.Clone()
		c.Levels = append(c.Levels[:i], c.Levels[i+1:]...)
		out = append(out, c)
	}
	for i := range s.Rules {
		if s.Rules[i].Prec >= 0 {
			c := s.Clone()
			c.Rules[i].Prec = -1
			out = append(out, c.Prune())
		}
	}
	for i := range s.Rules {
		if s.Rules[i].Act != nil && s.Rules[i].Act.Op != 'k' {
			c := s.Clone()
			c.Rules[i].Act = &Expr{Op: 'k', K: 1}
			out = append(out, c)
		}
	}
	return out
}

// simplifyAct rewrites an action after right-hand-side position pos (1-based) was removed.
func simplifyAct(e *Expr, pos int) *Expr {
	if e == nil {
		return nil
	}
	switch e.Op {
	case 'd':
		if e.K == pos {
			return &Expr{Op: 'k', K: 1}
		}
		if e.K > pos {
			return &Expr{Op: 'd', K: e.K - 1}
		}
		return e
	case '+', '*':
		return &Expr{Op: e.Op, L: simplifyAct(e.L, pos), R: simplifyAct(e.R, pos)}
	case 'c':
		c := &Expr{Op: 'c'}
		for _, p := range e.Parts {
			q := simplifyAct(p, pos)
			if q.Op == 'k' {
				q = &Expr{Op: 'q', S: "_"}
			}
			c.Parts = append(c.Parts, q)
		}
		return c
	}
	return e
}

// UserGlobals are package-level variables the user's epilogue defines and actions may refer to (plausible names; an
// identifier the generator introduces into the scope of the actions would shadow them).
var UserGlobals = []struct {
	Name string
	Val  int
}{{"base", 1009}, {"offset", 2003}, {"total", 3001}, {"count", 4001}, {"scale", 5003}, {"depth", 6007}, {"pos", 7001}, {"look", 8009},
	// the short names people really use for counters and accumulators
	{"n", 9001}, {"i", 9007}, {"k", 9011}, {"x", 9013}, {"m", 9029}, {"cnt", 9041}, {"idx", 9043}, {"num", 9049}, {"sum", 9059},
	{"acc", 9067}, {"size", 9091}, {"index", 9103}, {"result", 9109}, {"sym", 9127}, {"top", 9133}, {"rule", 9137}, {"length", 9151},
	{"line", 9157}, {"col", 9161}, {"level", 9173}, {"tmp", 9181}, {"ret", 9187}, {"res", 9199}, {"state", 9203}, {"stack", 9209},
	{"value", 9221}, {"tok", 9227}, {"action", 9239}, {"sp", 9241}, {"lhs", 9257}}
