// Package enga: Engine A, the in-process generator simulation. One case is
// (grammar text, variant, schedule plan[, debug flags]); it runs the real
// yaccgo pipeline of the instrumented copy under that plan and returns what
// was observed.
package enga

import (
	"fmt"
	"os"
	"path/filepath"
	"runtime"
	"runtime/debug"
	"strings"
	"sync"
	"time"

	builder "github.com/acekingke/yaccgo/Builder"
	lalr "github.com/acekingke/yaccgo/LALR"
	parser "github.com/acekingke/yaccgo/Parser"
	utils "github.com/acekingke/yaccgo/Utils"
	"github.com/acekingke/yaccgo/simrt"
	"github.com/acekingke/yaccgo/verifsim/wl"
)

// Schedule is the explicit, replayable description of a map-order schedule.
type Schedule struct {
	Seed    uint64            `json:"seed"`
	Default string            `json:"default"`
	Sites   map[string]string `json:"sites,omitempty"`
}

func (s Schedule) String() string {
	if len(s.Sites) == 0 {
		return fmt.Sprintf("%s/%d", s.Default, s.Seed)
	}
	return fmt.Sprintf("%s/%d+%d overrides", s.Default, s.Seed, len(s.Sites))
}

const (
	OutOK       = "ok"       // generation completed
	OutError    = "error"    // an error was returned
	OutPanic    = "panic"    // a diagnostic panic (string / error value)
	OutRuntime  = "runtime"  // a Go runtime error panic (index out of range, nil deref ...)
	OutHang     = "hang"     // tick budget exhausted
	OutDeadlock = "deadlock" // no task can make progress and the main task has not finished
	OutFatal    = "fatal"    // stack exhaustion etc. (worker died)
)

type Case struct {
	Text     string
	Variant  wl.Variant
	Sched    Schedule
	Budget   int64  // tick budget (0: default large)
	Mode     string // "build" (ParseAndBuild only), "gen" (write the output file), "debug" (DebugFlags on, ParseAndBuild)
	OutPath  string // for Mode gen; if empty a scratch file is used and removed
	KeepFile bool
	Dot      bool // also run DrawGrammar on the result
	// WallLimit (0: none) ends the run as a hang when it has taken this much real time although simulated time still
	// advances: a loop whose iterations get ever more expensive (a string growing by one character per round) would take
	// hours to use up a tick budget. It must be far above anything a terminating run of the case can need on a loaded
	// machine; the checker that sets it confirms such a hang against the real CLI.
	WallLimit time.Duration
	// Graph: the -g option (draw the automaton in the same run; `dot` is absent here, the DOT text is still produced
	// and the generator carries on exactly as the CLI does)
	Graph bool
}

type Obs struct {
	Outcome string
	Diag    string
	Stdout  string
	Output  []byte
	FsLog   []simrt.FsEvent
	Ticks   int64
	DecHash uint64
	DecN    int
	Leaked  int // tasks still parked when the main task ended
	W       *parser.Walker
	L       *lalr.LALR1
	DotText string
}

var ScratchDir = os.TempDir()
var fileCounter int
var mu sync.Mutex

// DefaultBudget is far above what any terminating run in the workloads needs.
const DefaultBudget = 20_000_000_000

func setFlags(c Case) {
	utils.DebugFlags = c.Mode == "debug"
	utils.PackFlags = !c.Variant.Unpack
	utils.HttpDebug = c.Variant.Http
	utils.ObjectMode = c.Variant.Object
	utils.DebugPackTab = false
	utils.GenDotGraph = c.Graph
	if c.Graph {
		utils.GenDotPath = filepath.Join(ScratchDir, fmt.Sprintf("enga-%d.png", os.Getpid()))
	}
}

type result struct {
	outcome, diag string
	w             *parser.Walker
}

func classifyPanic(e any) (string, string) {
	switch v := e.(type) {
	case simrt.HangPanic:
		return OutHang, v.Error()
	case simrt.ExitPanic:
		return OutError, fmt.Sprintf("exit %d", v.Code)
	case string:
		return OutPanic, v
	case error:
		msg := v.Error()
		if strings.HasPrefix(msg, "runtime error") {
			return OutRuntime, msg
		}
		return OutPanic, msg
	default:
		return OutPanic, fmt.Sprint(e)
	}
}

// Run executes one case.
func Run(c Case) *Obs {
	mu.Lock()
	defer mu.Unlock()
	if d := os.Getenv("VERIF_DUMP_TEXT"); d != "" && len(c.Text) > 20000 && c.Mode == "gen" {
		os.WriteFile(d, []byte(c.Text), 0o644) // debug aid: the last large grammar text handed to yaccgo
	}
	setFlags(c)
	budget := c.Budget
	if budget == 0 {
		budget = DefaultBudget
	}
	simrt.Reset(simrt.Plan{Seed: c.Sched.Seed, Default: c.Sched.Default, Sites: c.Sched.Sites, Budget: budget})
	simrt.Capture(true)
	simrt.TaskPanicHook = nil
	s0, f0, _ := simrt.TaskCounts()
	out := c.OutPath
	if c.Mode == "gen" && out == "" {
		fileCounter++
		out = filepath.Join(ScratchDir, fmt.Sprintf("enga-%d-%d.out", os.Getpid(), fileCounter))
	}
	done := make(chan result, 1)
	taskPanic := make(chan string, 4)
	simrt.TaskPanicHook = func(msg string) {
		select {
		case taskPanic <- msg:
		default:
		}
	}
	go func() {
		var res result
		defer func() {
			if e := recover(); e != nil {
				res.outcome, res.diag = classifyPanic(e)
				if res.outcome == OutRuntime {
					res.diag += "\n" + string(debug.Stack())
				}
			}
			done <- res
		}()
		switch c.Mode {
		case "gen":
			var err error
			if c.Variant.Lang == "ts" {
				err = builder.TsGenFromString(c.Text, out)
			} else {
				err = builder.TemplateGenFromString(c.Text, out)
			}
			if err != nil {
				res.outcome, res.diag = OutError, err.Error()
			} else {
				res.outcome = OutOK
			}
		default:
			w, err := parser.ParseAndBuild(c.Text)
			if err != nil {
				res.outcome, res.diag = OutError, err.Error()
			} else {
				res.outcome, res.w = OutOK, w
			}
		}
	}()
	o := &Obs{}
	var res result
	hangCh := simrt.HangCh()
	backstop := time.NewTimer(backstopDuration())
	defer backstop.Stop()
	poll := time.NewTicker(500 * time.Millisecond)
	defer poll.Stop()
	var wallCh <-chan time.Time
	if c.WallLimit > 0 {
		wt := time.NewTimer(c.WallLimit)
		defer wt.Stop()
		wallCh = wt.C
	}
	wallHit := false
	var blockedCh <-chan time.Time
	var lastTicks int64 = -1
	still := 0
wait:
	for {
		select {
		case res = <-done:
			break wait
		case <-wallCh:
			wallHit = true
			simrt.Abort() // the next Tick of any task now ends the run through hangCh
			blockedCh = time.After(10 * time.Second)
		case <-blockedCh:
			// nobody reached a tick for ten seconds after the limit: the run is not computing, it is blocked outside
			// simulated time - in a system call (a pipe nobody reads) or waiting for a child process
			res = result{outcome: OutHang, diag: "blocked outside simulated time (system call / child process): no task reached a tick for 10 s after the real-time limit"}
			break wait
		case <-hangCh:
			// some task exhausted the budget; give the main task a moment to unwind
			select {
			case res = <-done:
				if res.outcome != OutHang {
					// main finished normally although another task hung: still a hang of the run
					res = result{outcome: OutHang, diag: "a non-main task exhausted the tick budget"}
				}
			case <-time.After(2 * time.Second):
				res = result{outcome: OutHang, diag: "a non-main task exhausted the tick budget; main task blocked"}
			}
			break wait
		case msg := <-taskPanic:
			select {
			case res = <-done:
			case <-time.After(2 * time.Second):
				res = result{outcome: OutRuntime, diag: "non-main task panicked: " + msg + "; main task blocked"}
			}
			if res.outcome == OutOK || res.outcome == OutError {
				res = result{outcome: OutRuntime, diag: "non-main task panicked: " + msg}
			}
			break wait
		case <-poll.C:
			t := simrt.Ticks()
			if t == lastTicks {
				still++
			} else {
				still = 0
			}
			lastTicks = t
			if still >= 3 && !mainTaskBlockedOnChannel() {
				// not advancing simulated time, but not parked on a channel either: it is inside uninstrumented code
				// (file I/O, template execution, a loaded machine) - keep waiting, the backstop bounds it
				still = 0
			}
			if still >= 3 {
				res = result{outcome: OutDeadlock, diag: fmt.Sprintf("no task advanced simulated time for 3 samples at tick %d and the main task has not finished", t)}
				break wait
			}
		case <-backstop.C:
			fmt.Fprintln(os.Stderr, "enga: wall-clock backstop expired; harness trouble")
			fmt.Fprintf(os.Stderr, "mode=%s variant=%s sched=%s ticks=%d text(%d bytes) ends with %q\n", c.Mode, c.Variant, c.Sched, simrt.Ticks(), len(c.Text), c.Text[max0(len(c.Text)-300):])
			buf := make([]byte, 1<<18)
			fmt.Fprintf(os.Stderr, "%s\n", buf[:runtime.Stack(buf, true)])
			os.Exit(2)
		}
	}
	simrt.Capture(false)
	simrt.TaskPanicHook = nil
	if wallHit && res.outcome == OutHang {
		res.diag = fmt.Sprintf("still running after %v of real time at tick %d (simulated time advances ever more slowly); %s", c.WallLimit, simrt.Ticks(), res.diag)
	}
	o.Outcome, o.Diag, o.W = res.outcome, res.diag, res.w
	o.Stdout = simrt.Stdout()
	o.FsLog = simrt.FsLog()
	o.Ticks = simrt.Ticks()
	o.DecHash, o.DecN = simrt.Decisions()
	s1, f1, _ := simrt.TaskCounts()
	o.Leaked = int((s1 - s0) - (f1 - f0))
	if o.W != nil {
		if root, ok := o.W.VistorNode.(*parser.RootVistor); ok {
			o.L = root.LALR1
		}
	}
	if c.Graph {
		os.Remove(utils.GenDotPath)
	}
	if c.Mode == "gen" {
		if b, err := os.ReadFile(out); err == nil {
			o.Output = b
		}
		if c.OutPath == "" && !c.KeepFile {
			os.Remove(out)
		}
	}
	if c.Dot && o.L != nil {
		func() {
			defer func() {
				if e := recover(); e != nil {
					o.DotText = "PANIC: " + fmt.Sprint(e)
				}
			}()
			g := o.L.DrawGrammar(o.L.GTable)
			o.DotText = g.String()
		}()
	}
	return o
}

// mainTaskBlockedOnChannel inspects the goroutine dump: a run is a deadlock only if the main task (the goroutine
// started by Run) is parked in a channel operation AND every other task of the simulated program (goroutines started
// through simrt.Go that belong to this run, i.e. are not parked in a channel send left over from earlier runs whose
// receiver is gone) is parked too. A task that is merely runnable on a loaded machine is not a deadlock.
func mainTaskBlockedOnChannel() bool {
	buf := make([]byte, 4<<20)
	n := runtime.Stack(buf, true)
	mainParked := false
	for _, g := range strings.Split(string(buf[:n]), "\n\n") {
		head := g
		if i := strings.Index(g, "\n"); i >= 0 {
			head = g[:i]
		}
		parked := strings.Contains(head, "[chan receive") || strings.Contains(head, "[chan send") || strings.Contains(head, "[select")
		isMain := strings.Contains(g, "enga.Run.func") && (strings.Contains(g, "ParseAndBuild") || strings.Contains(g, "GenFromString"))
		isTask := strings.Contains(g, "simrt.Go.func1")
		if isMain {
			if !parked {
				return false
			}
			mainParked = true
		} else if isTask && !parked {
			return false // some task can still run (lexer computing the next token, or waiting for a CPU)
		}
	}
	return mainParked
}

// Schedules

// Canonical is the all-ascending schedule.
func Canonical() Schedule { return Schedule{Default: "asc"} }

// Swarm draws a schedule: which sites are perturbed and how.
func Swarm(seed uint64, k int, sites []string) Schedule {
	r := simrt.NewRng(seed ^ 0xabcdef)
	switch k % 5 {
	case 0:
		return Schedule{Seed: seed, Default: "shuffle"}
	case 1:
		return Schedule{Seed: seed, Default: "desc"}
	case 2:
		// canonical with a random subset of sites shuffled
		s := Schedule{Seed: seed, Default: "asc", Sites: map[string]string{}}
		for _, st := range sites {
			if r.Intn(3) == 0 {
				s.Sites[st] = "shuffle"
			}
		}
		return s
	case 3:
		// shuffled with a random subset pinned / rotated
		s := Schedule{Seed: seed, Default: "shuffle", Sites: map[string]string{}}
		for _, st := range sites {
			switch r.Intn(4) {
			case 0:
				s.Sites[st] = "asc"
			case 1:
				s.Sites[st] = fmt.Sprintf("rot:%d", 1+r.Intn(5))
			}
		}
		return s
	default:
		return Schedule{Seed: seed, Default: fmt.Sprintf("rot:%d", 1+r.Intn(7))}
	}
}

func max0(x int) int {
	if x < 0 {
		return 0
	}
	return x
}

func backstopDuration() time.Duration {
	if v := os.Getenv("VERIF_BACKSTOP"); v != "" {
		if d, err := time.ParseDuration(v); err == nil {
			return d
		}
	}
	return 900 * time.Second
}
