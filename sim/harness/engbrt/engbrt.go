// Package engbrt is the runtime of the engine-B driver binary: it is linked
// with a batch of generated parsers (each its own package) and drives them
// under a simulated environment:
//
//	SE  the token source: feeds tokens, truncates, injects unknown codes, fails (panics) at token i
//	SC  the context scheduler: advances several -o contexts one yield point at a time, order chosen by a seeded PRNG
//	step budget: every driver-loop iteration calls GetToken or an action, so a budget on those bounds every loop
package engbrt

import (
	"encoding/json"
	"fmt"
	"os"
	"runtime"
	"strings"
	"sync"
	"sync/atomic"
	"time"
)

// Parser is the glue a generated package exposes through its epilogue.
type Parser struct {
	Name      string
	Object    bool
	New       func() interface{}
	Init      func(c interface{})
	Parse     func(c interface{}, input string) (interface{}, bool)
	Action    func(s, a int) int
	Translate func(c int) int
	Consts    func() map[string]int
	Trace     func(on bool)
	ErrAcc    func() (int, int)
	SetHooks  func(next func(string, int) (int, int), rec func(int))
	Boot      func() string // outcome of the parse of the empty input performed while the package was initialised
	Push, Pop func()        // global form only, nil when the generated parser offers no PushContex/PopContex
}

var registry = map[string]*Parser{}

func Register(p *Parser) { registry[p.Name] = p }

// SetNest registers the save/restore pair of a global-form parser.
func SetNest(name string, push, pop func()) {
	if p := registry[name]; p != nil {
		p.Push, p.Pop = push, pop
	}
}

// ---------------------------------------------------------------- jobs

type Tok struct {
	Term int `json:"t"` // spec terminal index; -2: raw code in V
	V    int `json:"v"`
}

type Feed struct {
	Toks    []Tok `json:"toks"`
	PanicAt int   `json:"panic_at"` // the lexer fails when asked for token #PanicAt (0-based); -1: never
}

type Op struct {
	Op   string `json:"op"` // "init" | "parse" | "new"
	Feed *Feed  `json:"feed,omitempty"`
	Nest *Nest  `json:"nest,omitempty"` // parse (global form, history jobs): re-enter the parser from an action
}

// Nest: when the enclosing parse has run its At-th action (0-based), the action saves the parser state with
// PushContex, re-initialises, parses Feed to the end (which may itself nest), and restores with PopContex.
type Nest struct {
	At    int   `json:"at"`
	Feed  *Feed `json:"feed"`
	Inner *Nest `json:"inner,omitempty"`
	// Propagate: the action does not recover from a failing nested parse - the panic goes on through the enclosing parse
	// to the caller, who re-initialises the parser before the next parse (PopContex is never reached)
	Propagate bool `json:"propagate,omitempty"`
}

type Job struct {
	Parser string `json:"p"`
	Kind   string `json:"k"` // "parses" | "history" | "interleave" | "matrix" | "translate"
	Trace  bool   `json:"trace,omitempty"`
	Feeds  []Feed `json:"feeds,omitempty"`  // parses: each after a fresh Init (object mode: fresh context)
	Ops    []Op   `json:"ops,omitempty"`    // history: on one parser / context
	Ctxs   [][]Op `json:"ctxs,omitempty"`   // interleave: one op list per context
	Seed   uint64 `json:"seed,omitempty"`   // interleave: scheduler seed
	Policy string `json:"policy,omitempty"` // interleave: uniform | bursts | after-reduce
	NS     int    `json:"ns,omitempty"`     // matrix: number of states
	NA     int    `json:"na,omitempty"`     // matrix: number of symbols
	Codes  []int  `json:"codes,omitempty"`  // translate probes
	Budget int    `json:"budget,omitempty"` // step budget per parse (0: default)
	Tag    string `json:"tag,omitempty"`    // free, echoed
	N      int    `json:"n,omitempty"`      // soak: number of re-initialise + parse rounds on one parser / context
}

type Rec struct {
	Rule    int `json:"r"`
	Fetched int `json:"f"`
}

type ParseResult struct {
	InHash  string      `json:"in,omitempty"` // hash of the semantic values the parser passed INTO the lexer at each call
	Outcome string      `json:"o"`            // accept | syntax | nilret | other | budget | lexpanic
	Msg     string      `json:"m,omitempty"`
	Recs    []Rec       `json:"recs,omitempty"`
	Fetched int         `json:"f"`
	Steps   int         `json:"steps,omitempty"` // simulated time of the parse: GetToken calls + actions run
	Value   interface{} `json:"v,omitempty"`
	Trace   string      `json:"trace,omitempty"`
	// TraceCapped: the trace was longer than 6 MB and was not kept
	TraceCapped bool `json:"trace_capped,omitempty"`
	// Inner: parses that ran nested inside this one (in order of completion); NestSkipped: a nested parse was planned but
	// the parser offers no PushContex/PopContex
	// TraceAt[k]: how many bytes of this parse's trace were on the output when token k was requested ("parses" job with
	// the trace on)
	TraceAt     []int         `json:"trace_at,omitempty"`
	Inner       []ParseResult `json:"inner,omitempty"`
	NestSkipped bool          `json:"nest_skipped,omitempty"`
}

type JobResult struct {
	// Diverged >= 0: the parse with this index (within Parses) looped without requesting tokens or running actions until
	// the watchdog (heap > 400 MB or 4 s in one parse) stopped the driver; later parses of the job were not run
	Diverged      int             `json:"diverged"`
	Parser        string          `json:"p"`
	Kind          string          `json:"k"`
	Tag           string          `json:"tag,omitempty"`
	Parses        []ParseResult   `json:"parses,omitempty"` // parses, history (one per parse op)
	CtxParses     [][]ParseResult `json:"ctx_parses,omitempty"`
	Schedule      []int           `json:"schedule,omitempty"` // interleave: context id per step
	Matrix        [][]int         `json:"matrix,omitempty"`
	Boot          string          `json:"boot,omitempty"`
	SoakRounds    int             `json:"soak_rounds,omitempty"`
	SoakDeviation int             `json:"soak_deviation,omitempty"` // index of the first round whose result differs from round 0 (0: none)
	Trans         []int           `json:"trans,omitempty"`
	// MatrixMissing (TypeScript): the generated file has no table called StateActionArray
	MatrixMissing bool `json:"matrix_missing,omitempty"`
	// TransMissing (TypeScript): the generated file has no function called translate (a private helper)
	TransMissing bool           `json:"trans_missing,omitempty"`
	Consts       map[string]int `json:"consts,omitempty"`
	ConstsErr    string         `json:"consts_err,omitempty"` // TypeScript: reading the token constants threw
	Err          string         `json:"err,omitempty"`
	ErrCode      int            `json:"err_code"`
	AccCode      int            `json:"acc_code"`
}

// ---------------------------------------------------------------- environment

type budgetPanic struct{}
type lexPanic struct{ at int }

type env struct {
	id      string // parallel mode: the input string that identifies this parse
	inHash  uint64 // hash of the values the parser handed to the lexer
	feed    *Feed
	fetched int
	recs    []Rec
	steps   int
	budget  int
	yield   func(kind int) // nil when not interleaving
	parser  *Parser
	traceAt []int // trace capture: bytes of this parse's trace on the output at each token request
	nest    *Nest // pending nested parse of this parse
	inner   []ParseResult
	skipped bool
}

// trace capture of the "parses" job: the file stdout is redirected to and where the running parse's trace starts
var (
	ptraceFile  *os.File
	ptraceStart int64
)

var cur *env // the environment of the running parse (exactly one goroutine runs at a time)

// parallel mode: contexts run in real goroutines; the environment of a parse is found through the input string the
// generated parser hands to GetToken
var (
	parSteps     int64 // reductions performed by all contexts of the running parallel job
	parallelMode bool
	parEnvs      sync.Map // input id -> *env
)

func hookNext(input string, incoming int) (int, int) {
	if parallelMode {
		v, ok := parEnvs.Load(input)
		if !ok {
			panic("engbrt: unknown parse id " + input)
		}
		e := v.(*env)
		e.steps++
		if e.steps > e.budget {
			panic(budgetPanic{})
		}
		e.inHash = (e.inHash ^ uint64(uint32(incoming))) * 1099511628211
		i := e.fetched
		e.fetched++
		if e.feed.PanicAt >= 0 && i == e.feed.PanicAt {
			panic(lexPanic{i})
		}
		if i >= len(e.feed.Toks) {
			return -1, 0
		}
		return e.feed.Toks[i].Term, e.feed.Toks[i].V
	}
	atomic.StoreInt64(&lastHook, time.Now().UnixNano())
	cur.inHash = (cur.inHash ^ uint64(uint32(incoming))) * 1099511628211
	e := cur
	if ptraceFile != nil && len(e.traceAt) < 20000 {
		if st, err := ptraceFile.Stat(); err == nil {
			e.traceAt = append(e.traceAt, int(st.Size()-ptraceStart))
		}
	}
	e.steps++
	if e.steps > e.budget {
		panic(budgetPanic{})
	}
	if e.yield != nil {
		e.yield(0)
		e = cur
	}
	i := e.fetched
	if e.feed.PanicAt >= 0 && i == e.feed.PanicAt {
		e.fetched++
		panic(lexPanic{i})
	}
	e.fetched++
	if i >= len(e.feed.Toks) {
		return -1, 0
	}
	t := e.feed.Toks[i]
	return t.Term, t.V
}

func hookRec(r int) {
	if parallelMode {
		// actions cannot tell which context they run in; reductions are not recorded in parallel mode, only bounded
		if atomic.AddInt64(&parSteps, 1) > 400000 {
			panic(budgetPanic{})
		}
		return
	}
	atomic.StoreInt64(&lastHook, time.Now().UnixNano())
	e := cur
	e.steps++
	if e.steps > e.budget {
		panic(budgetPanic{})
	}
	e.recs = append(e.recs, Rec{r, e.fetched})
	if e.yield != nil {
		e.yield(1)
	}
	if n := e.nest; n != nil && len(e.recs)-1 == n.At {
		e.nest = nil
		runNested(e, n)
	}
}

// runNested re-enters the parser from inside an action of the parse e, the way a user of the global form does it:
// PushContex(); ParserInit(); Parser(sub); PopContex().
func runNested(e *env, n *Nest) {
	p := e.parser
	if p == nil || p.Push == nil || p.Pop == nil {
		e.skipped = true
		return
	}
	p.Push()
	p.Init(nil)
	ie := &env{feed: n.Feed, budget: e.budget, parser: p, nest: n.Inner}
	cur = ie
	pr := runParse(p, nil, ie)
	cur = e
	if n.Propagate && pr.Outcome != "accept" && pr.Outcome != "nilret" {
		e.inner = append(e.inner, pr)
		panic("Grammar error (nested parse, not recovered by the action): " + pr.Msg)
	}
	p.Pop()
	beginParse() // the enclosing parse is the running one again (watchdog baseline)
	e.inner = append(e.inner, pr)
}

func defaultBudget(f *Feed) int { return 10000 + 200*len(f.Toks) }

// runParse performs one Parse on context c (nil for the global form) under e.
func runParse(p *Parser, c interface{}, e *env) (res ParseResult) {
	if !parallelMode {
		beginParse()
	}
	defer func() {
		if !parallelMode {
			endParse()
		}
		res.Recs = e.recs
		res.Fetched = e.fetched
		res.Steps = e.steps
		res.InHash = fmt.Sprintf("%x", e.inHash)
		res.Inner, res.NestSkipped = e.inner, e.skipped
		res.TraceAt = e.traceAt
		if x := recover(); x != nil {
			switch v := x.(type) {
			case budgetPanic:
				res.Outcome = "budget"
			case lexPanic:
				res.Outcome = "lexpanic"
			case string:
				res.Msg = v
				if strings.HasPrefix(v, "Grammar error") {
					res.Outcome = "syntax"
				} else {
					res.Outcome = "other"
				}
			case error:
				res.Outcome, res.Msg = "other", v.Error()
			default:
				res.Outcome, res.Msg = "other", fmt.Sprint(x)
			}
		}
	}()
	v, ok := p.Parse(c, e.id)
	if !ok {
		res.Outcome = "nilret"
		return
	}
	res.Outcome = "accept"
	res.Value = v
	return
}

func fresh(p *Parser) interface{} {
	if p.Object {
		return p.New()
	}
	p.Init(nil)
	return nil
}

// watchdog state
var (
	parseStart  int64 // unix nano of the running parse, 0 = none
	curResult   *JobResult
	doneResults []*JobResult
	outPath     string
)

var (
	parseSeq int64 // incremented at the start of every parse
	lastHook int64 // unix nano of the last GetToken / action call
	writing  int32 // set by whoever writes the results file first
)

func beginParse() {
	now := time.Now().UnixNano()
	atomic.StoreInt64(&lastHook, now)
	atomic.AddInt64(&parseSeq, 1)
	atomic.StoreInt64(&parseStart, now)
}
func endParse() { atomic.StoreInt64(&parseStart, 0) }

// watchdog: a parse that neither requests a token nor runs an action for 300 ms while the heap grows by more than
// 200 MB (or for 180 s at all) is a driver loop that spins on its own (e.g. reducing by a rule that does not exist):
// the step budget cannot see it. The partial results are written and the process exits with status 3.
func watchdog() {
	var ms runtime.MemStats
	var seenSeq int64 = -1
	var baseline uint64
	for {
		time.Sleep(50 * time.Millisecond)
		if atomic.LoadInt64(&parseStart) == 0 {
			continue
		}
		seq := atomic.LoadInt64(&parseSeq)
		if seq != seenSeq {
			runtime.ReadMemStats(&ms)
			seenSeq, baseline = seq, ms.HeapAlloc
			continue
		}
		idle := time.Now().UnixNano() - atomic.LoadInt64(&lastHook)
		if idle < int64(300*time.Millisecond) {
			continue
		}
		runtime.ReadMemStats(&ms)
		grown := int64(ms.HeapAlloc) - int64(baseline)
		// the time-only criterion is a last resort (a loop that does not even allocate); it is far beyond any stall a
		// loaded machine can cause, so that load can never turn a correct parse into a "diverge" outcome
		if grown > 200<<20 || idle > int64(180*time.Second) {
			if atomic.LoadInt64(&parseSeq) != seq || atomic.LoadInt64(&parseStart) == 0 {
				continue // the parse ended meanwhile
			}
			if !atomic.CompareAndSwapInt32(&writing, 0, 1) {
				return
			}
			r := curResult
			if r != nil {
				r.Diverged = len(r.Parses)
				r.Parses = append(r.Parses, ParseResult{Outcome: "diverge", Msg: fmt.Sprintf("no token requested and no action run for %d ms; heap grew by %d MB", idle/1e6, grown>>20)})
				doneResults = append(doneResults, r)
			}
			ob, err := json.Marshal(doneResults)
			if err != nil {
				fmt.Fprintln(os.Stderr, "watchdog: cannot marshal partial results:", err)
				os.Exit(4)
			}
			if err := os.WriteFile(outPath, ob, 0o644); err != nil {
				fmt.Fprintln(os.Stderr, "watchdog: cannot write partial results:", err)
				os.Exit(4)
			}
			os.Exit(3)
		}
	}
}

func runJob(j *Job) *JobResult {
	r := &JobResult{Parser: j.Parser, Kind: j.Kind, Tag: j.Tag, Diverged: -1}
	curResult = r
	p := registry[j.Parser]
	if p == nil {
		r.Err = "unknown parser"
		return r
	}
	r.ErrCode, r.AccCode = p.ErrAcc()
	p.SetHooks(hookNext, hookRec)
	budgetOf := func(f *Feed) int {
		if j.Budget > 0 {
			return j.Budget
		}
		return defaultBudget(f)
	}
	switch j.Kind {
	case "parses":
		var tmp *os.File
		var off int64
		if j.Trace {
			if t, err := os.CreateTemp("", "trace"); err == nil {
				tmp = t
				old := os.Stdout
				os.Stdout = tmp
				p.Trace(true)
				defer func() {
					p.Trace(false)
					os.Stdout = old
					tmp.Close()
					os.Remove(tmp.Name())
				}()
			}
		}
		for i := range j.Feeds {
			f := &j.Feeds[i]
			var c interface{}
			if tmp != nil && i%2 == 1 {
				// the switch is a variable the user may set at any time before a parse: here after the context exists
				p.Trace(false)
				c = fresh(p)
				p.Trace(true)
			} else {
				c = fresh(p)
			}
			e := &env{feed: f, budget: budgetOf(f)}
			cur = e
			if tmp != nil {
				ptraceFile, ptraceStart = tmp, off
			}
			pr := runParse(p, c, e)
			ptraceFile = nil
			if tmp != nil {
				if st, err := tmp.Stat(); err == nil && st.Size() > off {
					n := st.Size() - off
					if pr.Outcome == "budget" || pr.Outcome == "diverge" {
						n = 0 // a looping parse prints without end; its trace is not judged
					} else if n > 6<<20 {
						n = 0 // too long to keep: marked, and not judged by the trace checks
						pr.TraceCapped = true
					}
					buf := make([]byte, n)
					tmp.ReadAt(buf, off)
					off = st.Size()
					pr.Trace = string(buf)
					// keep the capture file small
					if off > 64<<20 {
						tmp.Truncate(0)
						tmp.Seek(0, 0)
						off = 0
					}
				}
			}
			r.Parses = append(r.Parses, pr)
		}
	case "history":
		c := fresh(p)
		for i := range j.Ops {
			op := &j.Ops[i]
			switch op.Op {
			case "init":
				p.Init(c)
			case "new":
				c = fresh(p)
			case "parse":
				e := &env{feed: op.Feed, budget: budgetOf(op.Feed), parser: p}
				if !p.Object {
					e.nest = op.Nest
				}
				cur = e
				r.Parses = append(r.Parses, runParse(p, c, e))
			}
		}
	case "boot":
		// what a parse of the empty input gave during package initialisation, and what it gives now
		r.Boot = p.Boot()
		f := &Feed{PanicAt: -1}
		e := &env{feed: f, budget: budgetOf(f), parser: p}
		cur = e
		r.Parses = append(r.Parses, runParse(p, fresh(p), e))
	case "soak":
		// a long-lived parser: the same input parsed N times on one context, re-initialised before every parse (the
		// contract); every result must equal the first. Only the first round and the first deviating round are reported.
		c := fresh(p)
		f := &j.Feeds[0]
		var first ParseResult
		var firstJSON []byte
		r.SoakRounds = 0
		for i := 0; i < j.N; i++ {
			if i > 0 {
				p.Init(c)
			}
			e := &env{feed: f, budget: budgetOf(f), parser: p}
			cur = e
			pr := runParse(p, c, e)
			r.SoakRounds++
			if i == 0 {
				first = pr
				firstJSON, _ = json.Marshal(pr)
				r.Parses = append(r.Parses, first)
				continue
			}
			if pr.Outcome != first.Outcome || pr.Fetched != first.Fetched || len(pr.Recs) != len(first.Recs) || pr.InHash != first.InHash {
				r.Parses = append(r.Parses, pr)
				r.SoakDeviation = i
				break
			}
			if i%4096 == 0 || i == j.N-1 {
				// full comparison (values, every reduction) now and then and at the end
				b, _ := json.Marshal(pr)
				if string(b) != string(firstJSON) {
					r.Parses = append(r.Parses, pr)
					r.SoakDeviation = i
					break
				}
			}
		}
	case "soak-nested":
		// failed nested parses that nobody pops, by the thousand: feeds = [enclosing, nested-bad, nested-good]. Every
		// round re-initialises; rounds with the good nested input (first, every 2048th, last) must all give the same result.
		if p.Push == nil || p.Object || len(j.Feeds) < 3 {
			r.Err = "soak-nested needs a global-form parser with PushContex/PopContex"
			break
		}
		var firstJSON []byte
		good := func() ParseResult {
			p.Init(nil)
			e := &env{feed: &j.Feeds[0], budget: budgetOf(&j.Feeds[0]), parser: p, nest: &Nest{At: 0, Feed: &j.Feeds[2]}}
			cur = e
			return runParse(p, nil, e)
		}
		for i := 0; i < j.N; i++ {
			if i%2048 == 0 || i == j.N-1 {
				pr := good()
				b, _ := json.Marshal(pr)
				if firstJSON == nil {
					firstJSON = b
					r.Parses = append(r.Parses, pr)
				} else if string(b) != string(firstJSON) {
					r.Parses = append(r.Parses, pr)
					r.SoakDeviation = i
					break
				}
			}
			p.Init(nil)
			e := &env{feed: &j.Feeds[0], budget: budgetOf(&j.Feeds[0]), parser: p, nest: &Nest{At: 0, Feed: &j.Feeds[1], Propagate: true}}
			cur = e
			runParse(p, nil, e)
			r.SoakRounds++
		}
	case "interleave":
		runInterleaved(p, j, r, budgetOf)
	case "parallel":
		runParallel(p, j, r, budgetOf)
	case "matrix":
		for s := 0; s < j.NS; s++ {
			row := make([]int, j.NA)
			for a := 0; a < j.NA; a++ {
				row[a] = func() (v int) {
					defer func() {
						if x := recover(); x != nil {
							v = -999999
						}
					}()
					return p.Action(s, a)
				}()
			}
			r.Matrix = append(r.Matrix, row)
		}
	case "translate":
		for _, c := range j.Codes {
			r.Trans = append(r.Trans, p.Translate(c))
		}
		if p.Consts != nil {
			r.Consts = p.Consts()
		}
	default:
		r.Err = "unknown job kind " + j.Kind
	}
	return r
}

// ---------------------------------------------------------------- SC: the context scheduler

type rng struct{ s uint64 }

func (r *rng) next() uint64 {
	r.s += 0x9E3779B97F4A7C15
	z := r.s
	z = (z ^ (z >> 30)) * 0xBF58476D1CE4E5B9
	z = (z ^ (z >> 27)) * 0x94D049BB133111EB
	return z ^ (z >> 31)
}
func (r *rng) intn(n int) int {
	if n <= 1 {
		return 0
	}
	return int(r.next() % uint64(n))
}

// trace capture while interleaving: every task flushes what was printed since the last flush into its own buffer
// before it hands control back, so each chunk is attributed to the context that produced it
var (
	traceFile *os.File
	traceOff  int64
)

func flushTrace(t *task) {
	if traceFile == nil {
		return
	}
	st, err := traceFile.Stat()
	if err != nil || st.Size() <= traceOff {
		return
	}
	buf := make([]byte, st.Size()-traceOff)
	traceFile.ReadAt(buf, traceOff)
	traceOff = st.Size()
	t.traceBuf += string(buf)
}

type task struct {
	traceBuf string
	id       int
	resume   chan struct{}
	yielded  chan int // kind of yield point; -1 = finished
	results  []ParseResult
	finished bool
	env      *env
}

func runInterleaved(p *Parser, j *Job, r *JobResult, budgetOf func(*Feed) int) {
	if !p.Object {
		r.Err = "interleave needs an object-mode parser"
		return
	}
	if j.Trace {
		tmp, err := os.CreateTemp("", "itrace")
		if err == nil {
			defer os.Remove(tmp.Name())
			old := os.Stdout
			os.Stdout = tmp
			traceFile, traceOff = tmp, 0
			p.Trace(true)
			defer func() {
				p.Trace(false)
				os.Stdout = old
				traceFile = nil
				tmp.Close()
			}()
		}
	}
	n := len(j.Ctxs)
	tasks := make([]*task, n)
	for i := 0; i < n; i++ {
		t := &task{id: i, resume: make(chan struct{}), yielded: make(chan int)}
		tasks[i] = t
		ops := j.Ctxs[i]
		go func() {
			<-t.resume
			c := p.New()
			for k := range ops {
				op := &ops[k]
				switch op.Op {
				case "init":
					p.Init(c)
				case "new":
					c = p.New()
				case "parse":
					e := &env{feed: op.Feed, budget: budgetOf(op.Feed)}
					e.yield = func(kind int) {
						t.yielded <- kind
						<-t.resume
						cur = e
					}
					t.env = e
					cur = e
					pr := runParse(p, c, e)
					flushTrace(t)
					pr.Trace, t.traceBuf = t.traceBuf, ""
					if pr.Outcome == "budget" || pr.Outcome == "diverge" {
						pr.Trace = "" // as for solo parses: the trace of a looping parse is not kept
					}
					t.results = append(t.results, pr)
				}
			}
			t.finished = true
			t.yielded <- -1
		}()
	}
	rg := &rng{s: j.Seed}
	last := -1
	lastKind := 0
	burst := 0
	for {
		var runnable []int
		for i, t := range tasks {
			if !t.finished {
				runnable = append(runnable, i)
			}
		}
		if len(runnable) == 0 {
			break
		}
		pick := runnable[rg.intn(len(runnable))]
		stay := false
		for _, i := range runnable {
			if i == last {
				stay = true
			}
		}
		switch j.Policy {
		case "bursts":
			if stay && burst > 0 {
				pick = last
				burst--
			} else {
				burst = rg.intn(12)
			}
		case "after-reduce":
			// keep running the same context until it performs a reduction, then switch
			if stay && lastKind != 1 {
				pick = last
			}
		}
		if pick != last && last >= 0 {
			// control moves to another context: what was printed since the last flush belongs to the one that ran
			flushTrace(tasks[last])
		}
		t := tasks[pick]
		r.Schedule = append(r.Schedule, pick)
		if t.env != nil {
			cur = t.env
		}
		t.resume <- struct{}{}
		lastKind = <-t.yielded
		last = pick
	}
	for _, t := range tasks {
		r.CtxParses = append(r.CtxParses, t.results)
	}
}

// runParallel runs every context in its own goroutine with no scheduler in between (for the race detector build).
func runParallel(p *Parser, j *Job, r *JobResult, budgetOf func(*Feed) int) {
	if !p.Object {
		r.Err = "parallel needs an object-mode parser"
		return
	}
	parallelMode = true
	atomic.StoreInt64(&parSteps, 0)
	defer func() { parallelMode = false }()
	n := len(j.Ctxs)
	results := make([][]ParseResult, n)
	var wg sync.WaitGroup
	start := make(chan struct{})
	for i := 0; i < n; i++ {
		wg.Add(1)
		go func(i int) {
			defer wg.Done()
			<-start
			c := p.New()
			for k := range j.Ctxs[i] {
				op := &j.Ctxs[i][k]
				switch op.Op {
				case "init":
					p.Init(c)
				case "new":
					c = p.New()
				case "parse":
					e := &env{id: fmt.Sprintf("%s/c%d/p%d", j.Parser, i, k), feed: op.Feed, budget: budgetOf(op.Feed)}
					parEnvs.Store(e.id, e)
					results[i] = append(results[i], runParse(p, c, e))
					parEnvs.Delete(e.id)
				}
			}
		}(i)
	}
	close(start)
	wg.Wait()
	r.CtxParses = results
}

// Main reads the jobs file, runs the jobs, writes the results file.
func Main() {
	if len(os.Args) < 3 {
		fmt.Fprintln(os.Stderr, "usage: driver jobs.json results.json")
		os.Exit(2)
	}
	b, err := os.ReadFile(os.Args[1])
	if err != nil {
		fmt.Fprintln(os.Stderr, err)
		os.Exit(2)
	}
	var jobs []Job
	if err := json.Unmarshal(b, &jobs); err != nil {
		fmt.Fprintln(os.Stderr, err)
		os.Exit(2)
	}
	outPath = os.Args[2]
	go watchdog()
	for i := range jobs {
		r := runJob(&jobs[i])
		doneResults = append(doneResults, r)
	}
	curResult = nil
	if !atomic.CompareAndSwapInt32(&writing, 0, 1) {
		select {} // the watchdog is writing and will exit
	}
	ob, err := json.Marshal(doneResults)
	if err != nil {
		fmt.Fprintln(os.Stderr, err)
		os.Exit(2)
	}
	if err := os.WriteFile(os.Args[2], ob, 0o644); err != nil {
		fmt.Fprintln(os.Stderr, err)
		os.Exit(2)
	}
}
