// sim: coordinator, worker and replayer of the verification harness.
//
//	sim ctl    -prop C09 -tier quick -seed 1 ...   run a check (forks workers), write evidence, shrink, write replays
//	sim worker ...                                 internal
//	sim replay -file replays/x.json ...            re-execute one recorded case from its explicit plan
//	sim selftest ...                               determinism self-test
package main

import (
	"bufio"
	"bytes"
	"encoding/json"
	"flag"
	"fmt"
	"os"
	"os/exec"
	"path/filepath"
	"runtime"
	"runtime/debug"
	"runtime/pprof"
	"sort"
	"strconv"
	"strings"
	"sync"
	"time"

	"github.com/acekingke/yaccgo/verifsim/enga"
	"github.com/acekingke/yaccgo/verifsim/props"
)

type opts struct {
	prop, tier, audit, scratch, verif, repo, file, out string
	seed                                               uint64
	workers, w                                         int
	budget                                             float64 // wall seconds for the exploration phase
	maxCases                                           int
	noShrink                                           bool
}

func parse(args []string) *opts {
	o := &opts{}
	fs := flag.NewFlagSet("sim", flag.ExitOnError)
	fs.StringVar(&o.prop, "prop", "", "property id")
	fs.StringVar(&o.tier, "tier", "quick", "quick|thorough")
	fs.Uint64Var(&o.seed, "seed", 1, "VERIF_SEED")
	fs.StringVar(&o.audit, "audit", "", "seam audit json")
	fs.StringVar(&o.scratch, "scratch", os.TempDir(), "scratch dir")
	fs.StringVar(&o.verif, "verif", "/verif", "verif dir")
	fs.StringVar(&o.repo, "repo", "", "instrumented module root")
	fs.StringVar(&o.out, "out", "", "where evidence/ and replays/ go (default: the verif dir)")
	fs.StringVar(&o.file, "file", "", "replay file")
	fs.IntVar(&o.workers, "workers", runtime.NumCPU(), "worker processes")
	fs.IntVar(&o.w, "w", 0, "worker index")
	fs.Float64Var(&o.budget, "budget", 0, "wall-clock budget in seconds (0: tier default)")
	fs.IntVar(&o.maxCases, "max-cases", 0, "cap on cases (0: checker default)")
	fs.BoolVar(&o.noShrink, "no-shrink", false, "do not minimise violations")
	fs.Parse(args)
	if o.out == "" {
		o.out = o.verif
	}
	return o
}

func die(f string, a ...any) {
	fmt.Fprintf(os.Stderr, "sim: "+f+"\n", a...)
	os.Exit(2)
}

func loadCtx(o *opts) *props.Ctx {
	ctx := &props.Ctx{Prop: o.prop, Tier: o.tier, Seed: o.seed, Scratch: o.scratch, RepoCopy: o.repo}
	if o.audit != "" {
		b, err := os.ReadFile(o.audit)
		if err != nil {
			die("audit: %v", err)
		}
		var a struct {
			Sites []string `json:"map_range_sites"`
		}
		if err := json.Unmarshal(b, &a); err != nil {
			die("audit: %v", err)
		}
		ctx.Sites = a.Sites
	}
	if f, err := os.Open(filepath.Join(o.verif, "known_findings.jsonl")); err == nil {
		sc := bufio.NewScanner(f)
		sc.Buffer(make([]byte, 1<<20), 1<<20)
		for sc.Scan() {
			line := strings.TrimSpace(sc.Text())
			if line == "" || strings.HasPrefix(line, "#") {
				continue
			}
			var k props.KnownFinding
			if err := json.Unmarshal([]byte(line), &k); err != nil {
				die("known_findings.jsonl: %v", err)
			}
			ctx.Known = append(ctx.Known, k)
		}
		f.Close()
	}
	enga.ScratchDir = o.scratch
	return ctx
}

// ---------------------------------------------------------------- worker

type foundViol struct {
	Input *props.Input     `json:"input"`
	Viol  *props.Violation `json:"viol"`
}

type workerOut struct {
	Cases      int            `json:"cases"`
	Counters   map[string]int `json:"counters"`
	Keys       []string       `json:"keys"`
	Scheds     []string       `json:"scheds"`
	Samples    []any          `json:"samples"`
	Viols      []foundViol    `json:"viols"`
	Ticks      int64          `json:"ticks"`
	Harness    string         `json:"harness,omitempty"`
	LogHashes  map[int]string `json:"log_hashes,omitempty"`
	LastIndex  int            `json:"last_index"`
	TimedOut   bool           `json:"timed_out"`
	ExecMillis int64          `json:"exec_ms"`
	SlowIndex  int            `json:"slow_index"`
	SlowMs     int64          `json:"slow_ms"`
}

func runWorker(o *opts) {
	ctx := loadCtx(o)
	ch := props.Registry[o.prop]
	if ch == nil {
		die("unknown property %q", o.prop)
	}
	debug.SetMaxStack(256 << 20)
	n := ch.NumCases(ctx)
	if o.maxCases > 0 && o.maxCases < n {
		n = o.maxCases
	}
	out := &workerOut{Counters: map[string]int{}, LogHashes: map[int]string{}}
	keys := map[string]bool{}
	scheds := map[string]bool{}
	deadline := time.Now().Add(time.Duration(o.budget * float64(time.Second)))
	start := time.Now()
	wantHashes := os.Getenv("VERIF_LOGHASH") == "1"
	for i := o.w; i < n; i += o.workers {
		if o.budget > 0 && time.Now().After(deadline) {
			out.TimedOut = true
			break
		}
		tc := time.Now()
		in := ch.Gen(ctx, i)
		res := ch.Exec(ctx, in)
		if d := time.Since(tc).Milliseconds(); d > out.SlowMs {
			out.SlowMs, out.SlowIndex = d, i
		}
		out.Cases++
		out.LastIndex = i
		out.Ticks += res.SimTicks
		for k, v := range res.Counters {
			out.Counters[k] += v
		}
		for _, k := range res.Keys {
			keys[k] = true
		}
		for _, k := range res.Scheds {
			scheds[k] = true
		}
		if res.Sample != nil && len(out.Samples) < 2 {
			out.Samples = append(out.Samples, res.Sample)
		}
		if wantHashes {
			out.LogHashes[i] = res.LogHash
		}
		if res.Harness != "" {
			out.Harness = fmt.Sprintf("case %d: %s", i, res.Harness)
			break
		}
		if res.Viol != nil {
			out.Viols = append(out.Viols, foundViol{in, res.Viol})
			if len(out.Viols) >= 40 {
				break
			}
		}
	}
	out.ExecMillis = time.Since(start).Milliseconds()
	for k := range keys {
		out.Keys = append(out.Keys, k)
	}
	sort.Strings(out.Keys)
	for k := range scheds {
		out.Scheds = append(out.Scheds, k)
	}
	enc := json.NewEncoder(os.Stdout)
	if err := enc.Encode(out); err != nil {
		die("encode: %v", err)
	}
}

// ---------------------------------------------------------------- coordinator

type replayFile struct {
	Property string           `json:"property"`
	Tier     string           `json:"tier"`
	Seed     uint64           `json:"seed"`
	Input    *props.Input     `json:"input"`
	Viol     *props.Violation `json:"violation"`
	LogHash  string           `json:"log_hash"`
	Shrunk   bool             `json:"minimised"`
	Steps    int              `json:"shrink_steps"`
	Note     string           `json:"note,omitempty"`
}

func tierBudget(o *opts) float64 {
	if o.budget > 0 {
		return o.budget
	}
	if v := os.Getenv("VERIF_BUDGET"); v != "" {
		if f, err := strconv.ParseFloat(v, 64); err == nil {
			return f
		}
	}
	if o.tier == "thorough" {
		return 900
	}
	return 45
}

func selfArgs(o *opts, sub string, extra ...string) []string {
	a := []string{sub, "-prop", o.prop, "-tier", o.tier, "-seed", fmt.Sprint(o.seed), "-audit", o.audit,
		"-scratch", o.scratch, "-verif", o.verif, "-repo", o.repo, "-out", o.out}
	return append(a, extra...)
}

func runCtl(o *opts) {
	t0 := time.Now()
	ctx := loadCtx(o)
	ch := props.Registry[o.prop]
	if ch == nil {
		die("unknown property %q (have %v)", o.prop, props.IDs())
	}
	n := ch.NumCases(ctx)
	if o.maxCases > 0 && o.maxCases < n {
		n = o.maxCases
	}
	nw := o.workers
	if nw > n {
		nw = n
	}
	if nw < 1 {
		nw = 1
	}
	budget := tierBudget(o)
	self, _ := os.Executable()
	outs := make([]*workerOut, nw)
	errs := make([]string, nw)
	var wg sync.WaitGroup
	for j := 0; j < nw; j++ {
		wg.Add(1)
		go func(j int) {
			defer wg.Done()
			cmd := exec.Command(self, selfArgs(o, "worker", "-w", fmt.Sprint(j), "-workers", fmt.Sprint(nw),
				"-budget", fmt.Sprint(budget), "-max-cases", fmt.Sprint(o.maxCases))...)
			var stdout, stderr bytes.Buffer
			cmd.Stdout, cmd.Stderr = &stdout, &stderr
			err := cmd.Run()
			if err != nil {
				errs[j] = fmt.Sprintf("worker %d: %v\n%s", j, err, tail(stderr.String(), 4000))
				return
			}
			var wo workerOut
			if err := json.Unmarshal(stdout.Bytes(), &wo); err != nil {
				errs[j] = fmt.Sprintf("worker %d: bad output: %v\n%s\n%s", j, err, tail(stdout.String(), 500), tail(stderr.String(), 2000))
				return
			}
			outs[j] = &wo
		}(j)
	}
	wg.Wait()
	for _, e := range errs {
		if e != "" {
			fmt.Fprintln(os.Stderr, e)
			fmt.Println("HARNESS-TROUBLE: a worker died; no verdict")
			os.Exit(2)
		}
	}
	// merge
	counters := map[string]int{}
	keys := map[string]bool{}
	schedSet := map[string]bool{}
	var samples []any
	var viols []foundViol
	cases := 0
	var ticks int64
	timedOut := false
	for _, w := range outs {
		if w.Harness != "" {
			fmt.Println("HARNESS-TROUBLE:", w.Harness)
			os.Exit(2)
		}
		cases += w.Cases
		ticks += w.Ticks
		timedOut = timedOut || w.TimedOut
		for k, v := range w.Counters {
			counters[k] += v
		}
		for _, k := range w.Keys {
			keys[k] = true
		}
		for _, k := range w.Scheds {
			schedSet[k] = true
		}
		for _, s := range w.Samples {
			if len(samples) < 4 {
				samples = append(samples, s)
			}
		}
		viols = append(viols, w.Viols...)
	}
	exploreWall := time.Since(t0).Seconds()
	slowIdx, slowMs := 0, int64(0)
	for _, w := range outs {
		if w.SlowMs > slowMs {
			slowIdx, slowMs = w.SlowIndex, w.SlowMs
		}
	}

	// violations: group by (class,key), keep the one with the smallest case index, shrink, write replay
	sort.SliceStable(viols, func(i, j int) bool { return viols[i].Input.Index < viols[j].Input.Index })
	type group struct {
		fv    foundViol
		count int
	}
	groups := map[string]*group{}
	var order []string
	for _, v := range viols {
		k := v.Viol.Class + "\x00" + v.Viol.Key
		if g, ok := groups[k]; ok {
			g.count++
			continue
		}
		groups[k] = &group{fv: v, count: 1}
		order = append(order, k)
	}
	os.MkdirAll(filepath.Join(o.out, "replays"), 0o755)
	exit := 0
	reported := 0
	knownLines := map[string]bool{}
	shrinkDeadline := time.Now().Add(90 * time.Second)
	if o.tier == "thorough" {
		shrinkDeadline = time.Now().Add(5 * time.Minute)
	}
	for gi, k := range order {
		g := groups[k]
		in, v := g.fv.Input, g.fv.Viol
		in0, v0 := in, v
		steps := 0
		shrunk := false
		if !o.noShrink && ch.Shrink != nil && gi < 6 {
			in, v, steps = shrink(ctx, ch, in, v, shrinkDeadline)
			shrunk = true
		}
		// re-execute for the log hash
		res := ch.Exec(ctx, in)
		if v.NotReplayable {
			// found under real concurrency: the Go scheduler decides; try a few times, report in any case
			for try := 0; try < 4 && (res.Viol == nil || res.Viol.Class != v.Class); try++ {
				res = ch.Exec(ctx, in)
			}
			if res.Viol == nil || res.Viol.Class != v.Class {
				res = &props.Result{Viol: v, LogHash: "not-reproduced-in-5-attempts"}
			}
		}
		if res.Viol == nil || res.Viol.Class != v.Class {
			fmt.Printf("HARNESS-TROUBLE: violation %s of case %d did not reproduce in the coordinator (nondeterminism?)\n", v.Class, in.Index)
			os.Exit(2)
		}
		v = res.Viol
		rf := &replayFile{Property: o.prop, Tier: o.tier, Seed: o.seed, Input: in, Viol: v, LogHash: res.LogHash, Shrunk: shrunk, Steps: steps}
		name := fmt.Sprintf("%s-%d-%d-%s.json", o.prop, o.seed, in.Index, sanitize(v.Class))
		path := filepath.Join(o.out, "replays", name)
		b, _ := json.MarshalIndent(rf, "", " ")
		if err := os.WriteFile(path, b, 0o644); err != nil {
			die("write replay: %v", err)
		}
		// confirm in a fresh process
		cmd := exec.Command(self, selfArgs(o, "replay", "-file", path)...)
		outb, _ := cmd.CombinedOutput()
		code := cmd.ProcessState.ExitCode()
		if code != 1 && shrunk && !v.NotReplayable {
			// the minimised case does not reproduce in a fresh process (the coordinator's own history helped it fail):
			// fall back to the case as found
			in, v, shrunk, steps = in0, v0, false, 0
			rf = &replayFile{Property: o.prop, Tier: o.tier, Seed: o.seed, Input: in, Viol: v, LogHash: "", Shrunk: false, Steps: 0}
			b, _ = json.MarshalIndent(rf, "", " ")
			os.WriteFile(path, b, 0o644)
			cmd = exec.Command(self, selfArgs(o, "replay", "-file", path)...)
			outb, _ = cmd.CombinedOutput()
			code = cmd.ProcessState.ExitCode()
			if code != 1 && ch.ProcessStateIsEvidence {
				v.NotReplayable = true
				v.Msg += " [found in a worker process that had generated other grammars before; the same case alone in a fresh process passes: state is carried from one generation to the next]"
			}
		}
		if code != 1 && v.NotReplayable {
			fmt.Printf("note: %s was found under real concurrency and did not show again in one replay (not exactly replayable)\n", path)
		} else if code != 1 {
			fmt.Printf("HARNESS-TROUBLE: replay of %s in a fresh process exited %d instead of reproducing the violation\n%s\n", path, code, tail(string(outb), 2000))
			os.Exit(2)
		}
		if kf := ctx.IsKnown(o.prop, v); kf != nil {
			line := fmt.Sprintf("KNOWN-FINDING: property=%s %s (%s) [%d cases, e.g. replay=%s]", o.prop, kf.Key, kf.What, g.count, path)
			if !knownLines[kf.Key] {
				fmt.Println(line)
				knownLines[kf.Key] = true
			}
			continue
		}
		fmt.Printf("VIOLATION property=%s replay=%s\n", o.prop, path)
		fmt.Printf("  class=%s cases=%d seed=%d case=%d minimised=%v(%d steps)\n  %s\n", v.Class, g.count, o.seed, in.Index, shrunk, steps, strings.ReplaceAll(v.Msg, "\n", "\n  "))
		exit = 1
		reported++
	}

	// evidence
	distinct := len(keys)
	var probeWarn []string
	for _, p := range ch.Probes {
		if counters[p] == 0 {
			probeWarn = append(probeWarn, p)
		}
	}
	faults := map[string]int{}
	for _, f := range ch.FaultKeys {
		faults[f] = counters[f]
	}
	wall := time.Since(t0).Seconds()
	cov := map[string]any{
		"evaluations":             cases,
		"distinct_nontrivial":     distinct,
		"rule":                    ch.Rule,
		"samples":                 samples,
		"cases_planned":           n,
		"stopped_by_budget":       timedOut,
		"counters":                counters,
		"simulated_ticks":         ticks,
		"runs_per_hour":           int(float64(counters["runs"]+counters["parses"]) / (exploreWall + 0.001) * 3600),
		"cases_per_hour":          int(float64(cases) / (exploreWall + 0.001) * 3600),
		"workers":                 nw,
		"fault_kinds_fired":       faults,
		"probes_at_zero":          probeWarn,
		"map_range_sites":         ctx.Sites,
		"distinct_schedules":      len(schedSet),
		"distinct_schedules_rule": "distinct hashes of the complete map-iteration decision log (site, execution number, permutation) of a generator run",
		"real_components":         orDefault(ch.Real, []string{"all yaccgo packages of the current tree (source-instrumented copy, in-process)", "uninstrumented yaccgo CLI built from the same tree (where the check uses it)"}),
		"stub_components":         orDefault(ch.Stubs, []string{"map-iteration order shim (simrt.Order)", "tick clock", "stdout capture", "file-system effect log (pass-through to real files)"}),
		"violation_groups":        len(order),
		"slowest_case":            map[string]any{"index": slowIdx, "ms": slowMs},
		"known_findings_hit":      len(knownLines),
	}
	ev := map[string]any{
		"property_id": o.prop,
		"tier":        o.tier,
		"seed":        o.seed,
		"level":       ch.Level,
		"coverage":    cov,
		"assumptions": ch.Assume,
		"wall_s":      wall,
		"violations":  reported,
	}
	os.MkdirAll(filepath.Join(o.out, "evidence"), 0o755)
	b, _ := json.MarshalIndent(ev, "", " ")
	if err := os.WriteFile(filepath.Join(o.out, "evidence", o.prop+".json"), b, 0o644); err != nil {
		die("write evidence: %v", err)
	}
	fmt.Printf("%s %s seed=%d: %d cases (%d planned%s), %d distinct non-trivial, %d violation groups (%d reported, %d known), %.1fs\n",
		o.prop, o.tier, o.seed, cases, n, map[bool]string{true: ", stopped by budget", false: ""}[timedOut], distinct, len(order), reported, len(knownLines), wall)
	if len(probeWarn) > 0 {
		fmt.Println("warning: probes that never fired:", probeWarn)
	}
	if cases == 0 {
		fmt.Println("HARNESS-TROUBLE: no case was evaluated")
		os.Exit(2)
	}
	os.Exit(exit)
}

func orDefault(a, d []string) []string {
	if len(a) > 0 {
		return a
	}
	return d
}

func sanitize(s string) string {
	var b strings.Builder
	for _, c := range s {
		if c >= 'a' && c <= 'z' || c >= 'A' && c <= 'Z' || c >= '0' && c <= '9' || c == '-' {
			b.WriteRune(c)
		} else {
			b.WriteRune('_')
		}
	}
	return b.String()
}

func tail(s string, n int) string {
	if len(s) > n {
		return "..." + s[len(s)-n:]
	}
	return s
}

// shrink: greedy descent over the checker's candidate simplifications; a
// candidate is kept only if it shows the same violation class.
func shrink(ctx *props.Ctx, ch *props.Checker, in *props.Input, v *props.Violation, deadline time.Time) (*props.Input, *props.Violation, int) {
	steps := 0
	for time.Now().Before(deadline) {
		progressed := false
		for _, cand := range ch.Shrink(ctx, in, v) {
			if time.Now().After(deadline) {
				break
			}
			res := ch.Exec(ctx, cand)
			if res.Harness == "" && res.Viol != nil && res.Viol.Class == v.Class {
				in, v = cand, res.Viol
				steps++
				progressed = true
				break
			}
		}
		if !progressed {
			break
		}
	}
	return in, v, steps
}

// ---------------------------------------------------------------- replay

func runReplay(o *opts) {
	b, err := os.ReadFile(o.file)
	if err != nil {
		die("%v", err)
	}
	var rf replayFile
	if err := json.Unmarshal(b, &rf); err != nil {
		die("replay file: %v", err)
	}
	o.prop, o.tier, o.seed = rf.Property, rf.Tier, rf.Seed
	ctx := loadCtx(o)
	ch := props.Registry[rf.Property]
	if ch == nil {
		die("unknown property %q", rf.Property)
	}
	res := ch.Exec(ctx, rf.Input)
	if res.Harness != "" {
		fmt.Println("HARNESS-TROUBLE:", res.Harness)
		os.Exit(2)
	}
	if res.Viol == nil {
		fmt.Printf("replay of %s: no violation on this tree (recorded: %s)\n", o.file, rf.Viol.Class)
		os.Exit(0)
	}
	same := res.Viol.Class == rf.Viol.Class
	fmt.Printf("VIOLATION property=%s replay=%s\n  class=%s same_class_as_recorded=%v log_hash=%s recorded_log_hash=%s\n  %s\n",
		rf.Property, o.file, res.Viol.Class, same, res.LogHash, rf.LogHash, strings.ReplaceAll(res.Viol.Msg, "\n", "\n  "))
	os.Exit(1)
}

// ---------------------------------------------------------------- determinism self-test

// selftest: run the first maxCases cases of the property in this process and print index -> log hash.
func runHashes(o *opts) {
	ctx := loadCtx(o)
	ch := props.Registry[o.prop]
	if ch == nil {
		die("unknown property %q", o.prop)
	}
	n := ch.NumCases(ctx)
	if o.maxCases > 0 && o.maxCases < n {
		n = o.maxCases
	}
	for i := o.w; i < n; i += o.workers {
		res := ch.Exec(ctx, ch.Gen(ctx, i))
		v := "-"
		if res.Viol != nil {
			v = res.Viol.Class
		}
		fmt.Printf("%d %s %s\n", i, res.LogHash, v)
	}
}

func main() {
	if len(os.Args) < 2 {
		die("usage: sim ctl|worker|replay|hashes ...")
	}
	o := parse(os.Args[2:])
	props.InstallShrinkers()
	switch os.Args[1] {
	case "ctl":
		runCtl(o)
	case "worker":
		runWorker(o)
	case "replay":
		runReplay(o)
	case "hashes":
		runHashes(o)
	case "case":
		if pf := os.Getenv("VERIF_CPUPROFILE"); pf != "" {
			f, _ := os.Create(pf)
			pprof.StartCPUProfile(f)
			defer pprof.StopCPUProfile()
		}
		ctx := loadCtx(o)
		ch := props.Registry[o.prop]
		in := ch.Gen(ctx, o.w)
		res := ch.Exec(ctx, in)
		b, _ := json.MarshalIndent(map[string]any{"input": in, "result": res}, "", " ")
		fmt.Println(string(b))
	case "list":
		fmt.Println(strings.Join(props.IDs(), " "))
	default:
		die("unknown subcommand %s", os.Args[1])
	}
}
