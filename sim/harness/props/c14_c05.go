package props

import (
	"bytes"
	"fmt"
	"os"
	"os/exec"
	"path/filepath"
	"sort"
	"strings"

	"github.com/acekingke/yaccgo/verifsim/enga"
	"github.com/acekingke/yaccgo/verifsim/ref"
	"github.com/acekingke/yaccgo/verifsim/rng"
	"github.com/acekingke/yaccgo/verifsim/wl"
)

// exampleTexts returns the repository's own example grammars (current tree).
func exampleTexts(ctx *Ctx) (names []string, texts []string) {
	ents, _ := filepath.Glob(filepath.Join(ctx.RepoCopy, "examples", "*.y"))
	sort.Strings(ents)
	for _, p := range ents {
		b, err := os.ReadFile(p)
		if err == nil {
			names = append(names, filepath.Base(p))
			texts = append(texts, string(b))
		}
	}
	return
}

// mixedSpec draws a grammar from all families (for output-level checks).
func mixedSpec(ctx *Ctx, r *rng.R) *wl.Spec {
	switch r.Intn(7) {
	case 6:
		if r.Chance(1, 3) {
			s := wl.BigCFG(r.Sub("big"))
			wl.DecorateInt(s, r.Sub("d"))
			return s
		}
		return wideSpec(r.Sub("wide"))
	case 0:
		cl := wl.Classics()
		s := wl.VaryClassic(cl[r.Intn(len(cl))], r.Sub("v"))
		wl.DecorateInt(s, r.Sub("d"))
		return s
	case 1:
		return wl.OperatorTable(r.Sub("ot")).Spec
	case 2:
		return wl.TokenMix(r.Sub("tm"))
	default:
		for k := 0; ; k++ {
			s := wl.RandomCFG(r.Sub("cfg", k), wl.CFGParams{MaxNT: 5, MaxT: 5, MaxExtra: 6, MaxRhs: 4, Literals: true, Prec: r.Chance(1, 2)})
			if ok, _ := ref.New(s).Usable(); ok {
				wl.DecorateInt(s, r.Sub("d"))
				return s
			}
		}
	}
}

// ---------------------------------------------------------------- C14

func genC14(ctx *Ctx, i int) *Input {
	r := rng.New(ctx.Seed, "C14", i)
	// every option set of `generate`: the five output variants plus the web-debugger build (-d, -o -d)
	in := &Input{Index: i, Variants: append(append([]wl.Variant(nil), wl.AllVariants...), wl.Variant{Lang: "go", Http: true}, wl.Variant{Lang: "go", Object: true, Http: true})}
	names, texts := exampleTexts(ctx)
	if i < len(texts) {
		in.Text, in.Base = texts[i], names[i]
	} else {
		in.Spec = mixedSpec(ctx, r.Sub("spec"))
		if r.Chance(2, 3) {
			in.LayoutSeed = r.Uint64() | 1
		}
		if r.Chance(1, 6) {
			// two terminals with the same token code (an explicit number equal to a literal's code or to another explicit
			// number): the generated file is of no use, but it is still one file - determinism holds for every grammar
			dr := r.Sub("dupcode")
			var named []int
			for ti, t := range in.Spec.Terms {
				if t.Name != "" && t.Decl == wl.DeclToken && !t.Redecl {
					named = append(named, ti)
				}
			}
			if len(named) > 0 {
				a := named[dr.Intn(len(named))]
				code := 0
				for ti, t := range in.Spec.Terms {
					if ti != a && t.Name == "" && dr.Chance(1, 2) {
						code = int(t.Lit)
					} else if ti != a && t.Code > 0 && dr.Chance(1, 2) {
						code = t.Code
					}
				}
				if code == 0 && len(named) > 1 {
					b := named[(dr.Intn(len(named)-1)+1+indexOf(named, a))%len(named)]
					code = 700 + dr.Intn(50)
					in.Spec.Terms[b].Code = code
				}
				if code != 0 {
					in.Spec.Terms[a].Code = code
					in.Spec.Terms[a].Alias = ""
				}
			}
		}
	}
	k := numSched(ctx, 6, 24)
	in.Scheds = append(schedules(ctx, r.Sub("sched"), k), enga.Schedule{Default: "desc"})
	// in some cases also run the real, uninstrumented CLI a few times
	if i%numSched(ctx, 25, 10) == 0 {
		in.Extra = map[string]any{"real_runs": numSched(ctx, 4, 12)}
	}
	return in
}

func indexOf(xs []int, x int) int {
	for i, v := range xs {
		if v == x {
			return i
		}
	}
	return 0
}

func (in *Input) textFor(v wl.Variant, epi int) string {
	if in.Text != "" {
		return in.Text
	}
	return renderSpec(in.Spec, v, in.LayoutSeed, epi)
}

func execC14(ctx *Ctx, in *Input) *Result {
	res := &Result{}
	vars := in.Variants
	if len(vars) == 0 {
		vars = []wl.Variant{in.Variant}
	}
	distinctOut := 0
	for _, v := range vars {
		text := in.textFor(v, wl.EpiMinimal)
		if in.Text != "" && v.Lang == "ts" != strings.Contains(in.Base, "ts") && in.Base != "" {
			// the examples are written for one target language; the generator does not care, bytes must still be stable
		}
		var first []byte
		var firstOutcome string
		outs := map[string]bool{}
		for si, sc := range in.Scheds {
			o := enga.Run(enga.Case{Text: text, Variant: v, Sched: sc, Mode: "gen"})
			logObs(res, o)
			res.SimTicks += o.Ticks
			res.Count("runs", 1)
			if si == 0 {
				first, firstOutcome = o.Output, o.Outcome
				if o.Outcome != enga.OutOK {
					res.Count("skipped_generation_failed", 1)
					break
				}
				outs[hkey(string(o.Output))] = true
				continue
			}
			if o.Outcome != firstOutcome {
				res.Viol = &Violation{Class: "outcome-differs", Key: "outcome-differs",
					Msg: fmt.Sprintf("variant %s: schedule 0 ended %q, schedule %d (%s) ended %q: %s", v, firstOutcome, si, sc, o.Outcome, firstLines(o.Diag, 3))}
				return res
			}
			outs[hkey(string(o.Output))] = true
			if !bytes.Equal(first, o.Output) {
				sites := blameSites(ctx, text, v, in.Scheds[0], sc, first)
				res.Viol = &Violation{Class: "output-differs", Key: "sites:" + strings.Join(sites, " | "),
					Msg: fmt.Sprintf("variant %s: output under schedule %d (%s) differs from output under schedule 0 (%s); first difference: %s; map-range sites whose order alone changes the bytes: %v",
						v, si, sc, in.Scheds[0], firstDiff(first, o.Output), sites)}
				return res
			}
		}
		distinctOut += len(outs)
		// same-process repetition: g, other, g
		if firstOutcome == enga.OutOK && in.Spec != nil {
			other := enga.Run(enga.Case{Text: renderSpec(wl.ClassicByName("prec-expr"), v, 0, wl.EpiMinimal), Variant: v, Sched: in.Scheds[0], Mode: "gen"})
			_ = other
			again := enga.Run(enga.Case{Text: text, Variant: v, Sched: in.Scheds[0], Mode: "gen"})
			res.Count("runs", 2)
			if !bytes.Equal(again.Output, first) {
				res.Viol = &Violation{Class: "state-leak", Key: "state-leak",
					Msg: fmt.Sprintf("variant %s: generating the same grammar again in the same process after another grammar gives different bytes; first difference: %s", v, firstDiff(first, again.Output))}
				return res
			}
		}
		// seam completeness: the real CLI, separate processes
		if n, ok := in.Extra["real_runs"]; ok && firstOutcome == enga.OutOK {
			runs := toInt(n)
			real, err := realCLI(ctx, text, v, runs)
			if err != "" {
				res.Harness = err
				return res
			}
			res.Count("real_cli_runs", runs)
			for k := 1; k < len(real); k++ {
				if !bytes.Equal(real[0], real[k]) {
					res.Viol = &Violation{Class: "real-runs-differ", Key: "real-runs-differ",
						Msg: fmt.Sprintf("variant %s: runs 0 and %d of the uninstrumented CLI on the same file produced different bytes (not exactly replayable: the Go runtime chose the orders); first difference: %s", v, k, firstDiff(real[0], real[k]))}
					return res
				}
			}
			if len(real) > 0 && !bytes.Equal(real[0], first) {
				res.Viol = &Violation{Class: "real-vs-sim", Key: "real-vs-sim",
					Msg: fmt.Sprintf("variant %s: the uninstrumented CLI output differs from the simulated output although all simulated schedules agree: a nondeterminism source the seams do not own reaches the output; first difference: %s", v, firstDiff(first, real[0]))}
				return res
			}
		}
	}
	if distinctOut > 0 {
		res.Keys = append(res.Keys, hkey(in.Text, jsonStr(in.Spec), in.LayoutSeed))
	}
	name := in.Base
	if in.Spec != nil {
		name = in.Spec.Short()
	}
	res.Sample = map[string]any{"grammar": name, "variants": len(vars), "schedules": len(in.Scheds), "distinct_outputs_total": distinctOut}
	return res
}

func toInt(v any) int {
	switch x := v.(type) {
	case int:
		return x
	case float64:
		return int(x)
	}
	return 0
}

func firstDiff(a, b []byte) string {
	n := len(a)
	if len(b) < n {
		n = len(b)
	}
	i := 0
	for i < n && a[i] == b[i] {
		i++
	}
	line := 1 + bytes.Count(a[:i], []byte("\n"))
	ctxOf := func(x []byte) string {
		lo := bytes.LastIndexByte(x[:i], '\n') + 1
		hi := i
		for hi < len(x) && x[hi] != '\n' {
			hi++
		}
		s := string(x[lo:hi])
		if len(s) > 160 {
			s = s[:160] + "..."
		}
		return s
	}
	if i == n && len(a) == len(b) {
		return "none"
	}
	return fmt.Sprintf("line %d: %q vs %q", line, ctxOf(a), ctxOf(b))
}

// blameSites names the map-range sites for which switching only that site from
// schedule a's policy to schedule b's policy changes the output.
func blameSites(ctx *Ctx, text string, v wl.Variant, a, b enga.Schedule, base []byte) []string {
	var out []string
	pol := func(s enga.Schedule, site string) string {
		if p, ok := s.Sites[site]; ok {
			return p
		}
		return s.Default
	}
	for _, site := range ctx.Sites {
		if pol(a, site) == pol(b, site) && a.Seed == b.Seed {
			continue
		}
		sc := enga.Schedule{Seed: b.Seed, Default: a.Default, Sites: map[string]string{}}
		for k, p := range a.Sites {
			sc.Sites[k] = p
		}
		sc.Sites[site] = pol(b, site)
		o := enga.Run(enga.Case{Text: text, Variant: v, Sched: sc, Mode: "gen"})
		if o.Outcome == enga.OutOK && !bytes.Equal(o.Output, base) {
			out = append(out, site)
		}
	}
	sort.Strings(out)
	return out
}

var cliCounter int

// realCLI runs the uninstrumented yaccgo binary n times in separate processes.
func realCLI(ctx *Ctx, text string, v wl.Variant, n int) ([][]byte, string) {
	bin := filepath.Join(ctx.Scratch, "yaccgo-real")
	if _, err := os.Stat(bin); err != nil {
		return nil, "uninstrumented CLI binary missing: " + bin
	}
	cliCounter++
	dir := filepath.Join(ctx.Scratch, fmt.Sprintf("cli-%d-%d", os.Getpid(), cliCounter))
	os.MkdirAll(dir, 0o755)
	defer os.RemoveAll(dir)
	inp := filepath.Join(dir, "in.y")
	os.WriteFile(inp, []byte(text), 0o644)
	var outs [][]byte
	for k := 0; k < n; k++ {
		outp := filepath.Join(dir, fmt.Sprintf("out%d", k))
		args := []string{"generate"}
		if v.Unpack {
			args = append(args, "-u")
		}
		if v.Object {
			args = append(args, "-o")
		}
		if v.Http {
			args = append(args, "-d")
		}
		lang := "go"
		if v.Lang == "ts" {
			lang = "typescript"
		}
		args = append(args, lang, inp, outp)
		cmd := exec.Command(bin, args...)
		cmd.Stdout, cmd.Stderr = nil, nil
		if err := cmd.Run(); err != nil {
			return nil, fmt.Sprintf("uninstrumented CLI failed where the simulated run succeeded: %v", err)
		}
		b, err := os.ReadFile(outp)
		if err != nil {
			return nil, "uninstrumented CLI wrote no output: " + err.Error()
		}
		outs = append(outs, b)
	}
	return outs, ""
}

// ---------------------------------------------------------------- C05 (a): packed arrays vs dense table

func packedLookup(a *Auto, s, sym int) int {
	off := a.Off[s] + sym
	if off < 0 {
		return a.ErrCode
	}
	if off >= len(a.Chk) || a.Chk[off] != s {
		if sym > a.NTerminals {
			return a.GotoDef[sym-a.NTerminals-1]
		}
		return a.ActDef[s]
	}
	return a.Act[off]
}

func execC05a(ctx *Ctx, in *Input) *Result {
	res := &Result{}
	packs := map[string]bool{}
	for si, sc := range in.Scheds {
		o := buildUnder(res, in, sc, "build")
		res.SimTicks += o.Ticks
		res.Count("runs", 1)
		if o.Outcome != enga.OutOK {
			res.Count("skipped_generation_failed(C12)", 1)
			continue
		}
		a := Snapshot(o.L)
		if !a.NeedPacked {
			res.Count("not_packed(table_kept_dense)", 1)
			continue
		}
		res.Count("packed_runs", 1)
		if len(a.Off) != len(a.GTable) || len(a.ActDef) != len(a.GTable) || len(a.Act) != len(a.Chk) {
			res.Viol = &Violation{Class: "packed-shape", Key: "packed-shape", Msg: fmt.Sprintf("schedule %d (%s): packed vectors have inconsistent lengths", si, sc)}
			return res
		}
		leadingNeg := false
		for s, row := range a.GTable {
			if a.Off[s] < 0 {
				leadingNeg = true
			}
			for sym, want := range row {
				// column 0 (the augmented start symbol) is consulted too: translate maps every unknown token code to symbol 0
				got := func() (g int) {
					defer func() {
						if e := recover(); e != nil {
							g = -999999
						}
					}()
					return packedLookup(a, s, sym)
				}()
				if got != want {
					res.Viol = &Violation{Class: "packed-cell-differs", Key: "packed-cell-differs",
						Msg: fmt.Sprintf("schedule %d (%s): state %d, symbol %d (%s): packed lookup gives %d, the table has %d (error=%d accept=%d); offset=%d",
							si, sc, s, sym, a.SymName[sym], got, want, a.ErrCode, a.AccCode, a.Off[s])}
					return res
				}
				res.Count("cells_compared", 1)
			}
			if a.ActDef[s] < 0 {
				res.Count("probe_default_is_reduce", 1)
			} else if a.ActDef[s] == a.ErrCode {
				res.Count("probe_default_is_error", 1)
			} else {
				res.Count("probe_default_is_shift_or_accept", 1)
			}
		}
		if leadingNeg {
			res.Count("probe_negative_offset", 1)
		}
		packs[hkey(a.Act, a.Off, a.Chk, a.ActDef, a.GotoDef)] = true
	}
	res.Count("distinct_packings", len(packs))
	if len(packs) > 0 {
		for k := range packs {
			res.Keys = append(res.Keys, k)
		}
	}
	res.Sample = map[string]any{"grammar": in.Spec.Short(), "schedules": len(in.Scheds), "distinct_packings": len(packs)}
	return res
}

func init() {
	Register(&Checker{
		ID: "C14", Level: "exploration", Engine: "A", ProcessStateIsEvidence: true,
		Rule:     "case = (grammar text, 5 output variants, K map-order schedules incl. canonical, reverse, per-site shuffles and rotations); grammars: the repository's examples/*.y, varied textbook grammars, operator tables, token-declaration mixes, random CFGs with precedence. All outputs of one (grammar, variant) must be byte-identical; plus same-process regeneration and N runs of the uninstrumented CLI in separate processes. distinct_nontrivial = distinct grammar texts for which at least one output file was produced and compared.",
		NumCases: func(ctx *Ctx) int { return fixedCases(ctx, 150, 3000) },
		Gen:      genC14, Exec: execC14,
		Probes: []string{"real_cli_runs"},
		Assume: []string{"simrt.Order yields only iteration orders the Go specification permits", "real Go map iteration is a subset of the simulated orders (checked by the uninstrumented-CLI runs)"},
	})
	c05batches := func(ctx *Ctx) int { return fixedCases(ctx, 16, 400) }
	genB := genParsers("C05", false)
	genA := genAutoCase(true, 4, 10)
	execB := execParsers("C05")
	Register(&Checker{
		ID: "C05", Level: "exploration", Engine: "A+B",
		Rule:     "two kinds of cases. (a) (grammar, layout, K map-order schedules): for every run whose table yaccgo packs, the documented lookup (offset+symbol, bounds, check vector, default action / default goto) is evaluated for ALL (state, symbol) cells incl. column 0 (unknown tokens) and compared with the dense table of the same run. (b) batches of grammars compiled in the four Go variants: the full matrix is read through each variant's GENERATED Action() and compared with the dense table of the same run, and packed and -u parsers must give the same verdict, reductions, tokens requested and value on every input of the C01 input set. distinct_nontrivial = distinct packings (hash of the five packed vectors) + distinct grammars compiled.",
		NumCases: func(ctx *Ctx) int { return c05batches(ctx) + autoCases(ctx, 5000, 40000) },
		Gen: func(ctx *Ctx, i int) *Input {
			if isB, k := mixCases(c05batches(ctx), autoCases(ctx, 5000, 40000), i); isB {
				in := genB(ctx, k)
				in.Index = i
				in.Variants = wl.GoVariants
				if k == 1 && ctx.Thorough() {
					// scale (thorough only: generation alone takes several seconds): about 1000 states, packed vectors of
					// well over 10 000 entries, each printed as one line of more than 64 KiB
					s := wl.BlockCommands(125)
					wl.DecorateInt(s, rng.New(ctx.Seed, "C05", "blockcommands"))
					in.Specs = []*wl.Spec{s}
					in.Variants = []wl.Variant{{Lang: "go"}, {Lang: "go", Unpack: true}}
					in.LayoutSeed = 0
				}
				return in
			} else {
				in := genA(ctx, k)
				in.Index = i
				return in
			}
		},
		Exec: func(ctx *Ctx, in *Input) *Result {
			if len(in.Specs) > 0 {
				return execB(ctx, in)
			}
			return execC05a(ctx, in)
		},
		Probes: []string{"probe_default_is_reduce", "probe_default_is_error", "probe_negative_offset", "packed_runs", "matrices_compared", "pairs_compared"},
		Assume: []string{"reference models as in C01 for the input classification", "simrt.Order yields only iteration orders the Go specification permits"},
		Real:   []string{"yaccgo generator (instrumented copy, in-process)", "go build of generated parsers", "generated Action() of all four Go variants"},
		Stubs:  []string{"map-iteration order shim", "token source"},
	})
}
