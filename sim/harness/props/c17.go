package props

import (
	"fmt"
	"regexp"
	"strconv"
	"strings"

	"github.com/acekingke/yaccgo/verifsim/engbrt"
	"github.com/acekingke/yaccgo/verifsim/wl"
)

// C17: the parse trace tells the truth.

var (
	shiftRe  = regexp.MustCompile(`^Shift (.*), push state (-?\d+)$`)
	reduceRe = regexp.MustCompile(`^look ahead (.*), use Reduce:(.*?) -> (.*), go to state (-?\d+)$`)
)

type traceEv struct {
	Rule  int    // reference run only: rule number of a reduction
	Kind  string // shift | reduce
	Name  string // shifted symbol / lookahead
	State int
	LHS   string
	RHS   string
}

func normName(s string) string { return strings.Join(strings.Fields(s), " ") }

func parseTrace(tr string) ([]traceEv, error) {
	var out []traceEv
	for _, ln := range strings.Split(strings.TrimRight(tr, "\n"), "\n") {
		if ln == "" {
			continue
		}
		if m := reduceRe.FindStringSubmatch(ln); m != nil {
			st, _ := strconv.Atoi(m[4])
			out = append(out, traceEv{Kind: "reduce", Name: normName(m[1]), LHS: normName(m[2]), RHS: normName(m[3]), State: st})
			continue
		}
		if m := shiftRe.FindStringSubmatch(ln); m != nil {
			st, _ := strconv.Atoi(m[2])
			out = append(out, traceEv{Kind: "shift", Name: normName(m[1]), State: st})
			continue
		}
		return out, fmt.Errorf("line not understood: %q", ln)
	}
	return out, nil
}

// shown is how a symbol appears in the trace: literals as 'c', everything else by name.
func shownY(name string) string {
	if strings.HasPrefix(name, "$operator") && len(name) > 9 {
		return "'" + name[9:] + "'"
	}
	return name
}

// expectedTrace runs the reference LR driver over the tables of the same generation.
func expectedTrace(sc *specCtx, f *feedInfo) ([]traceEv, string) {
	ev, verdict, _ := expectedTraceAt(sc, f)
	return ev, verdict
}

// expectedTraceAt additionally returns, for the k-th request of a token, how many actions the run has performed by
// then (the parser asks for the next token right after shifting the previous one).
func expectedTraceAt(sc *specCtx, f *feedInfo) ([]traceEv, string, []int) {
	a := sc.Auto
	yid := map[string]int{}
	for y, n := range a.SymName {
		if _, dup := yid[n]; !dup || !a.IsNT[y] {
			yid[n] = y
		}
	}
	look := func(i int) int {
		if i >= len(f.Toks) {
			return 1
		}
		t := f.Toks[i]
		if t.Term < 0 {
			return 0
		}
		return yid[sc.Spec.Terms[t.Term].YName()]
	}
	var out []traceEv
	atReq := []int{0}
	stack := []int{0}
	pos := 0
	la := look(0)
	for steps := 0; steps < 40*len(f.Toks)+20000; steps++ {
		s := stack[len(stack)-1]
		act := a.GTable[s][la]
		switch {
		case act == a.ErrCode:
			return out, "syntax", atReq
		case act == a.AccCode:
			return out, "accept", atReq
		case act > 0:
			out = append(out, traceEv{Kind: "shift", Name: normName(shownY(a.SymName[la])), State: act})
			stack = append(stack, act)
			pos++
			atReq = append(atReq, len(out))
			la = look(pos)
		default:
			r := -act
			n := len(a.RuleR[r])
			stack = stack[:len(stack)-n]
			lhs := a.RuleL[r]
			g := a.GTable[stack[len(stack)-1]][lhs]
			rhs := ""
			for _, x := range sc.Spec.Rules[r-1].R {
				rhs += " " + shownY(sc.Spec.YSymName(x))
			}
			out = append(out, traceEv{Rule: r, Kind: "reduce", Name: normName(shownY(a.SymName[la])), LHS: sc.Spec.NTs[sc.Spec.Rules[r-1].L].Name, RHS: normName(rhs), State: g},
				traceEv{Kind: "shift", Name: sc.Spec.NTs[sc.Spec.Rules[r-1].L].Name, State: g})
			stack = append(stack, g)
		}
	}
	return out, "budget", atReq
}

func execC17(ctx *Ctx, in *Input) *Result {
	res := &Result{}
	sz := sizesFor(ctx)
	sz.Exhaustive /= 3
	sz.Mutants /= 2
	sz.NoVeryLong = true
	pb, ok := prepareBatch(ctx, res, in, wl.GoVariants, wl.EpiFull, sz)
	defer pb.cleanup()
	if !ok {
		return res
	}
	results, _, ok := pb.runParses(ctx, res, true)
	if !ok {
		return res
	}
	for si, sc := range pb.Specs {
		if sc.Auto == nil {
			continue
		}
		clash := rawCodesClash(sc.Auto, sc.Feeds)
		for _, u := range sc.sortedUnits() {
			vn := u.Variant.String()
			if u.GenErr != "" || u.CompErr != "" {
				res.Count("skipped_unit_unusable(C12/C16)", 1)
				continue
			}
			prs := results[u.Name]
			for fi := range sc.Feeds {
				f := &sc.Feeds[fi]
				skip := false
				for _, t := range f.Toks {
					if t.Term == -2 && clash[t.V] {
						skip = true
					}
				}
				if skip || fi >= len(prs) {
					continue
				}
				pr := &prs[fi]
				if pr.TraceCapped {
					res.Count("not_judged_trace_longer_than_6MB", 1)
					continue
				}
				if pr.Outcome != "accept" && pr.Outcome != "syntax" {
					res.Count("not_judged_outcome_"+pr.Outcome, 1)
					continue
				}
				fail := func(class, msg string, a ...any) *Result {
					res.Viol = &Violation{Class: class, Key: class, Sub: si,
						Msg: fmt.Sprintf("grammar [%s], variant %s, input [%s]: ", sc.Spec.Short(), vn, feedStr(sc.Spec, f.Toks)) + fmt.Sprintf(msg, a...)}
					return res
				}
				got, err := parseTrace(pr.Trace)
				if err != nil {
					if len(got) == 0 && strings.TrimSpace(pr.Trace) != "" && !strings.Contains(pr.Trace, "Shift ") && !strings.Contains(pr.Trace, "look ahead ") {
						// not one line looks like a trace line: the trace format changed, the harness cannot judge it
						res.Harness = "trace format not recognised: " + firstLines(pr.Trace, 3)
						return res
					}
					return fail("trace-unreadable", "%v", err)
				}
				want, verdict, atReq := expectedTraceAt(sc, f)
				if verdict != pr.Outcome {
					res.Count("skipped_tables_and_parser_disagree(C05/C08)", 1)
					continue
				}
				// the reductions in the trace must be those actually executed (recorded by the actions)
				ri := 0
				for _, ev := range got {
					if ev.Kind != "reduce" || sc.Spec.NoRec {
						continue
					}
					if ri >= len(pr.Recs) {
						return fail("trace-extra-reduction", "the trace shows more reductions than were executed (%d)", len(pr.Recs))
					}
					rule := pr.Recs[ri].Rule
					ri++
					if rule < 1 || rule > len(sc.Spec.Rules) {
						continue
					}
					sr := sc.Spec.Rules[rule-1]
					rhs := ""
					for _, x := range sr.R {
						rhs += " " + shownY(sc.Spec.YSymName(x))
					}
					if ev.LHS != sc.Spec.NTs[sr.L].Name || ev.RHS != normName(rhs) {
						return fail("trace-wrong-rule-text", "reduction #%d was by rule %d (%s) but the trace says %q -> %q", ri, rule, sc.Spec.RuleString(rule-1), ev.LHS, ev.RHS)
					}
				}
				if ri != len(pr.Recs) && !sc.Spec.NoRec {
					return fail("trace-missing-reduction", "%d reductions were executed, the trace shows %d", len(pr.Recs), ri)
				}
				if len(got) != len(want) {
					return fail("trace-length", "the trace has %d lines, a run of the automaton on this input performs %d actions\n got: %v\nwant: %v", len(got), len(want), got, want)
				}
				for k := range want {
					want[k].Rule = 0
					if got[k] != want[k] {
						return fail("trace-line-differs", "line %d of the trace is %+v, the automaton does %+v", k+1, got[k], want[k])
					}
				}
				// the trace is printed as the parser goes: when the lexer is asked for token k, every action performed so far
				// is on the output already (a lexer that prints, blocks or ends the program must find it there)
				for k, at := range pr.TraceAt {
					if k >= len(atReq) || at > len(pr.Trace) {
						break
					}
					n := 0
					for _, ln := range strings.Split(pr.Trace[:at], "\n") {
						if strings.TrimSpace(ln) != "" {
							n++
						}
					}
					if at > 0 && pr.Trace[at-1] != '\n' {
						n-- // an unfinished line
					}
					if n != atReq[k] {
						return fail("trace-lags-behind-parser", "when the parser asked for token #%d it had performed %d actions, %d lines were on the output", k+1, atReq[k], n)
					}
					res.Count("trace_positions_checked_at_token_requests", 1)
				}
				res.Count("traces_validated", 1)
				res.Count("trace_lines_validated", len(got))
			}
		}
		if len(sc.Feeds) > 0 {
			res.Keys = append(res.Keys, hkey(sc.Spec.Short()))
		}
	}
	if len(pb.Specs) > 0 && len(pb.Specs[0].Feeds) > 0 {
		sc := pb.Specs[0]
		res.Sample = map[string]any{"first_grammar": sc.Spec.Short(), "inputs_for_it": len(sc.Feeds), "example_input": feedStr(sc.Spec, sc.Feeds[0].Toks)}
	}
	return res
}

func init() {
	gen := genParsers("C17", false)
	Register(&Checker{
		ID: "C17", Level: "exploration", Engine: "B",
		Rule:     "case = batch of grammars x the four Go variants under one map-order schedule; every input of the C01 input set is parsed with IsTrace on (stdout captured per parse). The printed lines must be, in order, exactly the run of a reference LR driver over the tables yaccgo built in the same generation (each shift: symbol and state pushed; each reduction: lookahead, rule text, goto state, followed by the push of the left-hand side), and the reductions must be those the semantic actions recorded. distinct_nontrivial = distinct grammars traced.",
		NumCases: func(ctx *Ctx) int { return fixedCases(ctx, 32, 1200) },
		Gen: func(ctx *Ctx, i int) *Input {
			in := gen(ctx, i)
			in.Variants = wl.GoVariants
			return in
		},
		Exec:   execC17,
		Probes: []string{"traces_validated"},
		Assume: []string{"trace lines are recognised by two tolerant patterns (Shift <sym>, push state <n> / look ahead <sym>, use Reduce:<lhs> -> <rhs>, go to state <n>), names compared modulo blanks", "the table driven reference run uses the dense table of the same generation (its own correctness is C01-C05's business)"},
		Real:   []string{"yaccgo generator (instrumented copy)", "go build", "generated parsers with IsTrace on"},
		Stubs:  []string{"token source", "os.Stdout swapped to a temp file per parse"},
	})
	_ = engbrt.Job{}
}
