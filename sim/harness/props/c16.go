package props

import (
	"fmt"
	"os"
	"path/filepath"
	"strings"

	"github.com/acekingke/yaccgo/verifsim/enga"
	"github.com/acekingke/yaccgo/verifsim/engb"
	"github.com/acekingke/yaccgo/verifsim/engbrt"
	"github.com/acekingke/yaccgo/verifsim/ref"
	"github.com/acekingke/yaccgo/verifsim/rng"
	"github.com/acekingke/yaccgo/verifsim/wl"
)

// every printable ASCII character yaccgo can lex as a literal ('\” via its escape; backslash itself cannot be written)
func hazardLits() []byte {
	var b []byte
	for c := byte(33); c < 127; c++ {
		if c != '\\' {
			b = append(b, c)
		}
	}
	return append(b, 0xd7, 0xf7, 0xe9, 0xa7) // × ÷ é §
}

// wideSpec: grammars that stress the text generation: any literal, long rules with $10+, empty rules, all tag shapes, odd but legal names
func wideSpec(r *rng.R) *wl.Spec {
	for k := 0; ; k++ {
		rr := r.Sub(k)
		s := wl.RandomCFG(rr.Sub("cfg"), wl.CFGParams{MaxNT: 4, MaxT: 6, MaxExtra: 5, MaxRhs: 6, Literals: false, Prec: rr.Chance(1, 3)})
		// swap some named terminals for hazardous literals
		hz := hazardLits()
		used := map[byte]bool{}
		for i := range s.Terms {
			if rr.Chance(1, 2) {
				c := hz[rr.Intn(len(hz))]
				if used[c] {
					continue
				}
				used[c] = true
				d := wl.DeclToken
				if rr.Chance(1, 2) {
					d = wl.DeclUseOnly
				}
				s.Terms[i] = wl.Term{Lit: c, Decl: d}
			}
		}
		// one long rule
		if rr.Chance(1, 2) {
			n := rr.Range(9, 13)
			rule := wl.Rule{L: rr.Intn(len(s.NTs)), Prec: -1}
			for j := 0; j < n; j++ {
				rule.R = append(rule.R, wl.Sym{I: rr.Intn(len(s.Terms))})
			}
			// sometimes as one of the first rules (low rule number)
			pos := len(s.Rules)
			if rr.Chance(1, 2) {
				pos = rr.Intn(2)
			}
			s.Rules = append(s.Rules[:pos], append([]wl.Rule{rule}, s.Rules[pos:]...)...)
			// and enough rules after it that two-digit rule numbers exist
			for len(s.Rules) < 13 && rr.Chance(2, 3) {
				s.Rules = append(s.Rules, wl.Rule{L: rr.Intn(len(s.NTs)), R: []wl.Sym{{I: rr.Intn(len(s.Terms))}, {I: rr.Intn(len(s.Terms))}}, Prec: -1})
			}
		}
		// a use-only literal that is not used does not exist
		usedT := map[int]bool{}
		for _, t := range s.UsedTerms() {
			usedT[t] = true
		}
		for i := range s.Terms {
			if s.Terms[i].Decl == wl.DeclUseOnly && !usedT[i] {
				s.Terms[i].Decl = wl.DeclToken
			}
		}
		if ok, _ := ref.New(s).Usable(); !ok {
			continue
		}
		wl.DecorateInt(s, rr.Sub("dec"))
		// reference every tagged position in the long rules (so $10, $11 ... appear)
		for i := range s.Rules {
			if len(s.Rules[i].R) >= 9 && s.NTs[s.Rules[i].L].Tag != "" {
				var e *wl.Expr = &wl.Expr{Op: 'k', K: 1}
				for k, x := range s.Rules[i].R {
					if s.TagOf(x) != "" {
						e = &wl.Expr{Op: '+', L: e, R: &wl.Expr{Op: 'd', K: k + 1}}
					}
				}
				s.Rules[i].Act = e
			}
		}
		// comments inside actions are ordinary user code
		if rr.Chance(1, 3) && len(s.Rules) > 0 {
			i := rr.Intn(len(s.Rules))
			base := s.ActionText(i)
			if s.RawActions == nil {
				s.RawActions = map[int]string{}
			}
			if rr.Chance(1, 2) {
				s.RawActions[i] = base + " /* note */"
			} else {
				s.RawActions[i] = "// note\n" + base + "\n"
			}
		}
		s.Family = "wide"
		return s
	}
}

func genC16(ctx *Ctx, i int) *Input {
	r := rng.New(ctx.Seed, "C16", "batch", i)
	n := 8
	if ctx.Thorough() {
		n = 12
	}
	in := &Input{Index: i, Sub: r.Uint64(), Variants: wl.AllVariants}
	for k := 0; k < n; k++ {
		if k%2 == 0 {
			ws := wideSpec(r.Sub("wide", k))
			// a token named in a script that writes vowels as combining marks (the unchanged tree refuses such a name; a
			// tree that accepts it must still write a file that compiles) - only here, where "accepted" is the premise
			if mr := r.Sub("marks", k); mr.Chance(1, 8) {
				for ti := range ws.Terms {
					if ws.Terms[ti].Name != "" {
						ws.Terms[ti].Name = []string{"संख्या", "व्यंजक", "ตัวเลข"}[mr.Intn(3)]
						break
					}
				}
			}
			in.Specs = append(in.Specs, ws)
		} else {
			in.Specs = append(in.Specs, mixedSpec(ctx, r.Sub("mixed", k)))
		}
	}
	if r.Chance(2, 3) {
		in.LayoutSeed = r.Uint64() | 1
	}
	if i%2 == 0 {
		in.Scheds = []enga.Schedule{enga.Canonical()}
	} else {
		in.Scheds = []enga.Schedule{enga.Swarm(r.Uint64(), i/2, ctx.Sites)}
	}
	return in
}

// literalsOf lists the literal characters of a spec (finding key: which character breaks the output)
func literalsOf(s *wl.Spec) string {
	var b []byte
	for _, t := range s.Terms {
		if t.Name == "" {
			b = append(b, t.Lit)
		}
	}
	return string(b)
}

func execC16(ctx *Ctx, in *Input) *Result {
	res := &Result{}
	sched := enga.Canonical()
	if len(in.Scheds) > 0 {
		sched = in.Scheds[0]
	}
	variants := in.Variants
	if len(variants) == 0 {
		variants = wl.AllVariants
	}
	type unit struct {
		si   int
		v    wl.Variant
		name string
		out  []byte
	}
	var units []*unit
	var srcs []engb.Src
	tsFiles := map[string]string{}
	pbCounter++
	tsDir := filepath.Join(ctx.Scratch, fmt.Sprintf("c16ts-%d-%d", os.Getpid(), pbCounter))
	defer os.RemoveAll(tsDir)
	seenOut := map[string]bool{}
	for si, s := range in.Specs {
		for vi, v := range variants {
			name := fmt.Sprintf("p%d_%d_%d", in.Index, si, vi)
			var layR *rng.R
			if in.LayoutSeed != 0 {
				layR = rng.New(in.LayoutSeed+uint64(si), "layout")
			}
			text := wl.Render(s, wl.RenderOpts{Variant: v, Pkg: name, Epi: wl.EpiMinimal, Layout: layR})
			o := enga.Run(enga.Case{Text: text, Variant: v, Sched: sched, Mode: "gen"})
			logObs(res, o)
			res.SimTicks += o.Ticks
			res.Count("generations", 1)
			if o.Outcome != enga.OutOK {
				res.Count("skipped_generation_failed(C12)", 1)
				continue
			}
			u := &unit{si, v, name, o.Output}
			units = append(units, u)
			seenOut[hkey(string(o.Output))] = true
			if v.Lang == "go" {
				srcs = append(srcs, engb.Src{Name: name, Text: string(o.Output), Lang: "go"})
			} else {
				os.MkdirAll(tsDir, 0o755)
				p := filepath.Join(tsDir, name+".ts")
				os.WriteFile(p, o.Output, 0o644)
				tsFiles[name] = p
			}
		}
	}
	compErrs, _, dir, err := engb.BuildOnly(ctx.RepoCopy, srcs)
	defer os.RemoveAll(dir)
	if err != nil {
		res.Harness = "engine B: " + err.Error()
		return res
	}
	tsErrs := map[string]string{}
	if len(tsFiles) > 0 {
		var jobs []engbrt.Job
		for n := range tsFiles {
			jobs = append(jobs, engbrt.Job{Parser: n, Kind: "translate"})
		}
		rs, err := engb.RunTS(verifDir(ctx), ctx.Scratch, tsFiles, jobs)
		if err != nil {
			res.Harness = "engine B (node): " + err.Error()
			return res
		}
		for _, r := range rs {
			if r.Err != "" {
				tsErrs[r.Parser] = r.Err
			}
		}
	}
	for _, u := range units {
		res.Count("outputs_compiled_"+u.v.Lang, 1)
		msg := compErrs[u.name]
		if u.v.Lang == "ts" {
			msg = tsErrs[u.name]
		}
		if msg == "" {
			continue
		}
		s := in.Specs[u.si]
		// finding key: the first compiler message with positions and package names removed
		first := strings.SplitN(msg, "\n", 2)[0]
		if i := strings.Index(first, ": "); i >= 0 {
			first = first[i+2:]
		}
		key := "does-not-compile:" + u.v.Lang
		res.Viol = &Violation{Class: "does-not-compile-" + u.v.Lang, Key: key, Sub: u.si,
			Msg: fmt.Sprintf("grammar [%s] (literals %q): yaccgo reported success for variant %s, but the output is not a well-formed %s program:\n%s", s.Short(), literalsOf(s), u.v, u.v.Lang, firstLines(msg, 6))}
		return res
	}
	for k := range seenOut {
		res.Keys = append(res.Keys, k)
	}
	if len(in.Specs) > 0 {
		res.Sample = map[string]any{"grammars_in_batch": len(in.Specs), "first_grammar": in.Specs[0].Short(), "literals": literalsOf(in.Specs[0]), "outputs_compiled": len(units)}
	}
	return res
}

func init() {
	Register(&Checker{
		ID: "C16", Level: "exploration", Engine: "B",
		Rule:     "case = batch of grammars x 5 variants, generated under one map-order schedule with exactly the prologue and epilogue the statement names (package clause + import fmt; GetToken); half of the grammars are 'wide': any printable character as a literal token, rules of 0-13 symbols with actions using $1..$13, every tag shape, declared and use-only literals. Every output yaccgo reports success for is compiled by the real go build (-gcflags=-e), TypeScript outputs are type-erased and loaded by node. distinct_nontrivial = distinct output files compiled.",
		NumCases: func(ctx *Ctx) int { return fixedCases(ctx, 32, 1200) },
		Gen:      genC16, Exec: execC16,
		Probes: []string{"outputs_compiled_go", "outputs_compiled_ts"},
		Assume: []string{"TypeScript type correctness is not decidable here (no tsc): the TypeScript half decides 'loads after type erasure'", "action code in the workloads is in the common subset of Go and TypeScript"},
		Real:   []string{"yaccgo generator (instrumented copy)", "go build", "node"},
		Stubs:  []string{"TypeScript type eraser"},
	})
}
