package props

import (
	"fmt"
	"os"
	"path/filepath"
	"sort"
	"time"

	"github.com/acekingke/yaccgo/verifsim/enga"
	"github.com/acekingke/yaccgo/verifsim/engb"
	"github.com/acekingke/yaccgo/verifsim/engbrt"
	"github.com/acekingke/yaccgo/verifsim/ref"
	"github.com/acekingke/yaccgo/verifsim/rng"
	"github.com/acekingke/yaccgo/verifsim/wl"
)

// genUnit is one generated parser: (grammar, variant) under one schedule.
type genUnit struct {
	SpecIdx int
	Variant wl.Variant
	Name    string
	Text    string // grammar text given to yaccgo
	Out     []byte // what yaccgo wrote
	GenErr  string // generation failed
	CompErr string // does not compile / load
}

type specCtx struct {
	Spec    *wl.Spec
	G       *ref.Grammar
	LA      *ref.LALR // nil when the LR(1) collection is too large
	CI      ref.ConflictInfo
	Auto    *Auto // yaccgo's tables for this grammar under the batch schedule
	Units   map[string]*genUnit
	Feeds   []feedInfo
	Usable  bool
	KnownCF bool // conflict free by construction (Spec.KnownLALR)
}

func (sc *specCtx) conflictFree() bool { return sc.KnownCF || sc.LA != nil && sc.CI.Cells == 0 }

type feedInfo struct {
	PanicAt  int // the lexer fails when asked for this token (-1: never)
	Kind     string
	Toks     []ref.Tok // grammar tokens (Term >= 0) and raw codes (Term == -2)
	Sentence bool
	BadPos   int
}

func (f *feedInfo) feed() engbrt.Feed {
	fd := engbrt.Feed{PanicAt: f.PanicAt}
	for _, t := range f.Toks {
		fd.Toks = append(fd.Toks, engbrt.Tok{Term: t.Term, V: t.V})
	}
	return fd
}

func (f *feedInfo) String() string {
	s := ""
	for i, t := range f.Toks {
		if i > 0 {
			s += " "
		}
		if t.Term == -2 {
			s += fmt.Sprintf("<code %d>", t.V)
		} else {
			s += fmt.Sprintf("t%d", t.Term)
		}
	}
	return s
}

func feedStr(s *wl.Spec, toks []ref.Tok) string {
	out := ""
	for i, t := range toks {
		if i > 0 {
			out += " "
		}
		if t.Term == -2 {
			out += fmt.Sprintf("<code %d>", t.V)
		} else if t.Term >= 0 && t.Term < len(s.Terms) {
			out += s.Terms[t.Term].Key()
		} else {
			out += "?"
		}
	}
	if out == "" {
		return "<empty>"
	}
	return out
}

type feedSizes struct {
	Sentences, MaxLen, Exhaustive, Mutants, Prefixes int
	NoVeryLong                                       bool // traces of 10^4-token parses are not kept whole (C15, C17)
}

func sizesFor(ctx *Ctx) feedSizes {
	if ctx.Thorough() {
		return feedSizes{Sentences: 120, MaxLen: 40, Exhaustive: 1500, Mutants: 300, Prefixes: 12}
	}
	return feedSizes{Sentences: 30, MaxLen: 24, Exhaustive: 250, Mutants: 80, Prefixes: 5}
}

// makeFeeds builds the input set of a grammar and classifies every input with the Earley reference.
func makeFeeds(g *ref.Grammar, r *rng.R, sz feedSizes) []feedInfo {
	s := g.Spec
	var out []feedInfo
	seen := map[string]bool{}
	val := func() int { return r.Range(1, 999) }
	add := func(kind string, toks []ref.Tok) {
		f := feedInfo{Kind: kind, Toks: toks, PanicAt: -1}
		k := f.String()
		if seen[k] {
			return
		}
		seen[k] = true
		rt := make([]int, len(toks))
		for i, t := range toks {
			if t.Term >= 0 {
				rt[i] = g.T(t.Term)
			} else {
				rt[i] = -1
			}
		}
		f.Sentence, f.BadPos = g.Recognise(rt)
		out = append(out, f)
	}
	toToks := func(syms []int) []ref.Tok {
		t := make([]ref.Tok, len(syms))
		for i, x := range syms {
			t[i] = ref.Tok{Term: x - 2, V: val()}
		}
		return t
	}
	var sentences [][]ref.Tok
	for i := 0; i < sz.Sentences; i++ {
		budget := 1 + r.Intn(12)
		if i%5 == 4 {
			budget = 1 + r.Intn(sz.MaxLen)
		}
		st := toToks(g.RandomSentence(r.Sub("sent", i), budget))
		if len(st) > 3*sz.MaxLen+20 {
			continue
		}
		sentences = append(sentences, st)
		add("sentence", st)
	}
	// a few long sentences: deep stacks, many reductions (scale, not shape)
	for i, budget := range []int{300, 1500} {
		if sz.Sentences == 0 {
			break
		}
		st := toToks(g.LongSentence(r.Sub("long", i), budget))
		if len(st) >= 100 && len(st) <= 6000 {
			// a sentence by construction (it was derived from the start symbol); Earley on it would be cubic for
			// ambiguous grammars, so it is not consulted, and no mutants or prefixes are made from it
			f := feedInfo{Kind: "long-sentence", Toks: st, PanicAt: -1, Sentence: true, BadPos: -1}
			if !seen[f.String()] {
				seen[f.String()] = true
				out = append(out, f)
			}
		}
	}
	// exhaustive short strings over the used terminals
	used := s.UsedTerms()
	if len(used) > 0 {
		count := 0
		k := 1
		for n := len(used); n < sz.Exhaustive && k < 8; k++ {
			n *= len(used)
		}
		ref.AllStrings(used, k, func(cur []int) bool {
			if count >= sz.Exhaustive {
				return false
			}
			count++
			t := make([]ref.Tok, len(cur))
			for i, x := range cur {
				t[i] = ref.Tok{Term: x, V: val()}
			}
			add("exhaustive", t)
			return true
		})
	}
	// mutated sentences
	for i := 0; i < sz.Mutants && len(sentences) > 0 && len(s.Terms) > 0; i++ {
		base := sentences[r.Intn(len(sentences))]
		m := append([]ref.Tok(nil), base...)
		anyTerm := func() ref.Tok { return ref.Tok{Term: r.Intn(len(s.Terms)), V: val()} }
		switch r.Intn(6) {
		case 0: // replace
			if len(m) > 0 {
				m[r.Intn(len(m))] = anyTerm()
			}
		case 1: // insert
			p := r.Intn(len(m) + 1)
			m = append(m[:p], append([]ref.Tok{anyTerm()}, m[p:]...)...)
		case 2: // delete
			if len(m) > 0 {
				p := r.Intn(len(m))
				m = append(m[:p], m[p+1:]...)
			}
		case 3: // swap
			if len(m) > 1 {
				p := r.Intn(len(m) - 1)
				m[p], m[p+1] = m[p+1], m[p]
			}
		case 4: // unknown token code
			p := r.Intn(len(m) + 1)
			code := rng.Pick(r, []int{0, 1, 2, 99999, -7, 255, 300})
			m = append(m[:p], append([]ref.Tok{{Term: -2, V: code}}, m[p:]...)...)
		case 5: // duplicate a token
			if len(m) > 0 {
				p := r.Intn(len(m))
				m = append(m[:p+1], m[p:]...)
			}
		}
		add("mutant", m)
	}
	// truncation: EOF at every point of some sentences
	for i := 0; i < sz.Prefixes && i < len(sentences); i++ {
		st := sentences[len(sentences)-1-i]
		for k := 0; k < len(st); k++ {
			add("prefix", st[:k])
		}
	}
	return out
}

// unknownCodeUsable reports whether code is no token code of the run's symbol table (else the raw-code mutant is not "unknown").
func rawCodesClash(a *Auto, feeds []feedInfo) map[int]bool {
	clash := map[int]bool{}
	if a == nil {
		return clash
	}
	codes := map[int]bool{}
	for y := range a.SymName {
		if !a.IsNT[y] {
			codes[a.Value[y]] = true
		}
	}
	for _, f := range feeds {
		for _, t := range f.Toks {
			if t.Term == -2 && codes[t.V] {
				clash[t.V] = true
			}
		}
	}
	return clash
}

// ---------------------------------------------------------------- batch preparation

type parserBatch struct {
	Specs   []*specCtx
	Go      *engb.Batch
	TSFiles map[string]string
	tsDir   string
}

func (pb *parserBatch) cleanup() {
	if pb.Go != nil {
		pb.Go.Cleanup()
	}
	if pb.tsDir != "" {
		os.RemoveAll(pb.tsDir)
	}
}

var pbCounter int

// prepareBatch generates every (spec, variant) under the schedule, compiles the Go ones into one driver.
func prepareBatch(ctx *Ctx, res *Result, in *Input, variants []wl.Variant, epi int, sz feedSizes) (*parserBatch, bool) {
	t0 := time.Now()
	pb := &parserBatch{TSFiles: map[string]string{}}
	sched := enga.Canonical()
	if len(in.Scheds) > 0 {
		sched = in.Scheds[0]
	}
	pbCounter++
	var srcs []engb.Src
	r := rng.New(in.Sub, "feeds")
	for si, s := range in.Specs {
		sc := &specCtx{Spec: s, G: ref.New(s), Units: map[string]*genUnit{}}
		sc.Usable, _ = sc.G.Usable()
		if s.KnownLALR {
			sc.KnownCF = true
		} else if la, ok := sc.G.BuildLALR(lr1Limit); ok {
			sc.LA = la
			sc.CI = la.Conflicts(sc.G)
		}
		lay := uint64(0)
		if in.LayoutSeed != 0 {
			lay = in.LayoutSeed + uint64(si)
		}
		for vi, v := range variants {
			name := fmt.Sprintf("p%d_%d_%d", in.Index, si, vi)
			var layR *rng.R
			if lay != 0 {
				layR = rng.New(lay, "layout")
			}
			text := wl.Render(s, wl.RenderOpts{Variant: v, Pkg: name, Epi: epi, Layout: layR})
			u := &genUnit{SpecIdx: si, Variant: v, Name: name, Text: text}
			tg := time.Now()
			// a quarter of the parsers are generated the way the README's example does it, with the automaton drawn in the
			// same run (-g): the option must not change the parser
			graph := (in.Index+si+vi)%4 == 2
			if graph {
				res.Count("generations_with_-g", 1)
			}
			o := enga.Run(enga.Case{Text: text, Variant: v, Sched: sched, Mode: "gen", Graph: graph})
			res.Count("ms_gen_run", int(time.Since(tg).Milliseconds()))
			logObs(res, o)
			res.SimTicks += o.Ticks
			res.Count("generations", 1)
			if o.Outcome != enga.OutOK {
				u.GenErr = o.Outcome + ": " + firstLines(o.Diag, 2)
			} else {
				u.Out = o.Output
				if v.Lang == "go" {
					srcs = append(srcs, engb.Src{Name: name, Text: string(o.Output), Object: v.Object, Lang: "go"})
				} else {
					if pb.tsDir == "" {
						pb.tsDir = filepath.Join(ctx.Scratch, fmt.Sprintf("ts-%d-%d", os.Getpid(), pbCounter))
						os.MkdirAll(pb.tsDir, 0o755)
					}
					p := filepath.Join(pb.tsDir, name+".ts")
					os.WriteFile(p, o.Output, 0o644)
					pb.TSFiles[name] = p
				}
			}
			sc.Units[v.String()] = u
		}
		// tables of the same run (same schedule)
		ob := enga.Run(enga.Case{Text: wl.Render(s, wl.RenderOpts{Variant: variants[0], Pkg: "main", Epi: wl.EpiNone}), Variant: variants[0], Sched: sched, Mode: "build"})
		if ob.Outcome == enga.OutOK {
			sc.Auto = Snapshot(ob.L)
		}
		if sz.Sentences > 0 && sc.Usable {
			tf := time.Now()
			sc.Feeds = makeFeeds(sc.G, r.Sub("spec", si), sz)
			res.Count("ms_make_feeds", int(time.Since(tf).Milliseconds()))
			// unknown codes chosen from what THIS generation numbered: the private numbers yaccgo gave the nonterminals (they
			// sit right above the token codes) are no token codes, a lexer that passes characters through may return them
			if sc.Auto != nil {
				tok := map[int]bool{}
				for y := range sc.Auto.SymName {
					if !sc.Auto.IsNT[y] {
						tok[sc.Auto.Value[y]] = true
					}
				}
				var ntCodes []int
				for y := range sc.Auto.SymName {
					if sc.Auto.IsNT[y] && y != 0 && !tok[sc.Auto.Value[y]] && sc.Auto.Value[y] > 0 {
						ntCodes = append(ntCodes, sc.Auto.Value[y])
					}
				}
				rr := r.Sub("ntcodes", si)
				var sents []int
				for fi := range sc.Feeds {
					if sc.Feeds[fi].Sentence && len(sc.Feeds[fi].Toks) <= 12 && sc.Feeds[fi].Kind == "sentence" {
						sents = append(sents, fi)
					}
				}
				for k := 0; k < 8 && len(ntCodes) > 0 && len(sents) > 0; k++ {
					base := sc.Feeds[sents[rr.Intn(len(sents))]].Toks
					code := ntCodes[rr.Intn(len(ntCodes))]
					m := append([]ref.Tok(nil), base...)
					p := rr.Intn(len(m) + 1)
					if len(m) > 0 && rr.Chance(1, 2) {
						p = rr.Intn(len(m))
						m[p] = ref.Tok{Term: -2, V: code} // in place of a token
					} else {
						m = append(m[:p], append([]ref.Tok{{Term: -2, V: code}}, m[p:]...)...)
					}
					rt := make([]int, len(m))
					for i, t := range m {
						if t.Term >= 0 {
							rt[i] = sc.G.T(t.Term)
						} else {
							rt[i] = -1
						}
					}
					f := feedInfo{Kind: "mutant-nonterminal-number", Toks: m, PanicAt: -1}
					f.Sentence, f.BadPos = sc.G.Recognise(rt)
					sc.Feeds = append(sc.Feeds, f)
				}
			}
			// scale: one very long sentence and a damaged copy, classified by a reference LR run over the tables of this
			// generation (Earley is quadratic); only for conflict-free grammars, where table and language coincide
			if sc.Auto != nil && sc.conflictFree() && (si == 0 || ctx.Thorough()) && !sz.NoVeryLong {
				rr := r.Sub("verylong", si)
				syms := sc.G.LongSentence(rr, 14000)
				if len(syms) >= 2000 && len(syms) <= 40000 {
					toks := make([]ref.Tok, len(syms))
					for i, x := range syms {
						toks[i] = ref.Tok{Term: x - 2, V: rr.Range(1, 999)}
					}
					dam := append([]ref.Tok(nil), toks...)
					p := len(dam) - 1 - rr.Intn(5)
					dam[p] = ref.Tok{Term: rr.Intn(len(s.Terms)), V: 1}
					for _, tk := range [][]ref.Tok{toks, dam} {
						f := feedInfo{Kind: "very-long", Toks: tk, PanicAt: -1}
						verdict, shifted := tableVerdict(sc, &f)
						if verdict == "accept" {
							f.Sentence, f.BadPos = true, -1
						} else if verdict == "syntax" {
							f.Sentence, f.BadPos = false, shifted
						} else {
							continue
						}
						sc.Feeds = append(sc.Feeds, f)
					}
				}
			}
		}
		pb.Specs = append(pb.Specs, sc)
	}
	res.Count("ms_generate", int(time.Since(t0).Milliseconds()))
	t1 := time.Now()
	defer func() { res.Count("ms_go_build", int(time.Since(t1).Milliseconds())) }()
	if len(srcs) > 0 {
		b, err := engb.Build(ctx.RepoCopy, srcs)
		if err != nil {
			res.Harness = "engine B: " + err.Error()
			return pb, false
		}
		pb.Go = b
		for _, sc := range pb.Specs {
			for _, u := range sc.sortedUnits() {
				if e, bad := b.CompErrs[u.Name]; bad {
					u.CompErr = e
					if d := os.Getenv("VERIF_DEBUG_DIR"); d != "" {
						os.MkdirAll(d, 0o755)
						os.WriteFile(filepath.Join(d, u.Name+".y"), []byte(u.Text), 0o644)
						os.WriteFile(filepath.Join(d, u.Name+".err"), []byte(e), 0o644)
						os.WriteFile(filepath.Join(d, u.Name+".out"), u.Out, 0o644)
					}
				}
			}
		}
	}
	return pb, true
}

// runParses runs every feed of every spec through every usable unit; returns results[name][feedIndex].
func (pb *parserBatch) runParses(ctx *Ctx, res *Result, trace bool) (map[string][]engbrt.ParseResult, map[string]*engbrt.JobResult, bool) {
	return pb.runParsesB(ctx, res, trace, 0)
}

// runParsesB: budget > 0 overrides the default step budget (10000 + 200 per token).
func (pb *parserBatch) runParsesB(ctx *Ctx, res *Result, trace bool, budget int) (map[string][]engbrt.ParseResult, map[string]*engbrt.JobResult, bool) {
	var goJobs, tsJobs []engbrt.Job
	for _, sc := range pb.Specs {
		var feeds []engbrt.Feed
		for i := range sc.Feeds {
			feeds = append(feeds, sc.Feeds[i].feed())
		}
		if len(feeds) == 0 {
			continue
		}
		var names []string
		for _, u := range sc.Units {
			names = append(names, u.Variant.String())
		}
		sort.Strings(names)
		for _, vn := range names {
			u := sc.Units[vn]
			if u.GenErr != "" || u.CompErr != "" {
				continue
			}
			j := engbrt.Job{Parser: u.Name, Kind: "parses", Feeds: feeds, Trace: trace && u.Variant.Lang == "go", Budget: budget}
			if u.Variant.Lang == "go" {
				goJobs = append(goJobs, j)
			} else {
				tsJobs = append(tsJobs, j)
			}
		}
	}
	out := map[string][]engbrt.ParseResult{}
	meta := map[string]*engbrt.JobResult{}
	if pb.Go != nil && len(goJobs) > 0 {
		t0 := time.Now()
		rs, err := pb.Go.Run(goJobs)
		res.Count("ms_go_parses", int(time.Since(t0).Milliseconds()))
		if err != nil {
			res.Harness = "engine B run: " + err.Error()
			return nil, nil, false
		}
		for i := range rs {
			out[rs[i].Parser] = rs[i].Parses
			meta[rs[i].Parser] = &rs[i]
			res.Count("parses", len(rs[i].Parses))
			steps := 0
			for k := range rs[i].Parses {
				steps += rs[i].Parses[k].Steps
			}
			res.Count("parser_steps(simulated time of generated parsers)", steps)
			res.LogHash = hkey(res.LogHash, jsonStr(rs[i]))
		}
	}
	if len(tsJobs) > 0 {
		t0 := time.Now()
		rs, err := engb.RunTS(verifDir(ctx), ctx.Scratch, pb.TSFiles, tsJobs)
		res.Count("ms_node_parses", int(time.Since(t0).Milliseconds()))
		if err != nil {
			res.Harness = "engine B (node): " + err.Error()
			return nil, nil, false
		}
		for i := range rs {
			if rs[i].Err != "" {
				// load failure: recorded on the unit
				for _, sc := range pb.Specs {
					for _, u := range sc.sortedUnits() {
						if u.Name == rs[i].Parser {
							u.CompErr = rs[i].Err
						}
					}
				}
				continue
			}
			out[rs[i].Parser] = rs[i].Parses
			meta[rs[i].Parser] = &rs[i]
			res.Count("parses", len(rs[i].Parses))
			res.Count("parses_typescript", len(rs[i].Parses))
			res.LogHash = hkey(res.LogHash, jsonStr(rs[i]))
		}
	}
	return out, meta, true
}

func verifDir(ctx *Ctx) string {
	if v := os.Getenv("VERIF_DIR"); v != "" {
		return v
	}
	return "/verif"
}

// toRecs converts driver records to reference events.
func toRecs(rs []engbrt.Rec) []ref.RecEvent {
	out := make([]ref.RecEvent, len(rs))
	for i, r := range rs {
		out[i] = ref.RecEvent{Rule: r.Rule, Fetched: r.Fetched}
	}
	return out
}

// valueOf normalises a returned value for comparison: ints as int, strings as string;
// for TypeScript the start symbol's field is picked from the returned ValType object.
func valueOf(v interface{}, u *genUnit, s *wl.Spec) interface{} {
	if m, ok := v.(map[string]interface{}); ok {
		tag := ""
		if len(s.NTs) > 0 {
			tag = s.NTs[s.Start].Tag
		}
		if tag == "" {
			return 0
		}
		v = m[tag]
	}
	switch x := v.(type) {
	case float64:
		return int(x)
	case nil:
		return nil
	}
	return v
}

// grammarsForParsers draws the grammars of an engine-B case.
func grammarsForParsers(ctx *Ctx, r *rng.R, n int, wantConflictFree bool) []*wl.Spec {
	var out []*wl.Spec
	for k := 0; len(out) < n && k < 60*n; k++ {
		rr := r.Sub("g", k)
		var s *wl.Spec
		shared := false
		pick := rr.Intn(7)
		if len(out) == 0 {
			pick = 200 // the first grammar of every batch is one whose sentences nest or chain deeply (scale probes)
		}
		if rr.Chance(1, 40) {
			pick = 100
		}
		switch pick {
		case 200:
			deep := []string{"right-rec", "lr0-paren", "slr-expr", "json-like", "default-start-nested", "left-rec"}
			s = wl.VaryClassic(wl.ClassicByName(deep[rr.Intn(len(deep))]), rr.Sub("v"))
		case 100:
			// scale: about a thousand parser states, packed vectors of tens of kilobytes of text
			s = wl.ManyRulesN(rr.Sub("huge"), rr.Range(300, 500))
		case 0:
			cl := wl.Classics()
			s = wl.VaryClassic(cl[rr.Intn(len(cl))], rr.Sub("v"))
		case 1:
			s = wl.OperatorTable(rr.Sub("ot")).Spec
		case 2:
			s = wideSpec(rr.Sub("wide"))
		case 3:
			// several rules with byte-identical action text (evaluated over a table-driven derivation)
			s = wl.RandomCFG(rr.Sub("cfg"), wl.CFGParams{MaxNT: 4, MaxT: 4, MaxExtra: 5, MaxRhs: 3, Literals: false})
			shared = true
		default:
			s = wl.RandomCFG(rr.Sub("cfg"), wl.CFGParams{MaxNT: 4, MaxT: 4, MaxExtra: 5, MaxRhs: 4, Literals: true, Prec: rr.Chance(1, 3)})
		}
		g := ref.New(s)
		if ok, _ := g.Usable(); !ok {
			continue
		}
		if !g.Reachable()[g.Start] {
			continue
		}
		if !s.KnownLALR {
			la, ok := g.BuildLALR(lr1Limit)
			if !ok {
				continue
			}
			if (wantConflictFree || shared) && la.Conflicts(g).Cells > 0 {
				continue
			}
		}
		if shared {
			wl.DecorateShared(s, rr.Sub("dec"))
			s.Family = "shared-actions"
		} else if s.Family != "F3" && s.Family != "wide" {
			wl.DecorateInt(s, rr.Sub("dec"))
		}
		out = append(out, s)
	}
	return out
}

func engbRunTS(ctx *Ctx, pb *parserBatch, jobs []engbrt.Job) ([]engbrt.JobResult, error) {
	return engb.RunTS(verifDir(ctx), ctx.Scratch, pb.TSFiles, jobs)
}

// sortedUnits returns the units of a grammar in a fixed order (never range over the map: the harness must not
// smuggle Go's map order into job order, logs or verdict order).
func (sc *specCtx) sortedUnits() []*genUnit {
	var names []string
	for vn := range sc.Units {
		names = append(names, vn)
	}
	sort.Strings(names)
	out := make([]*genUnit, 0, len(names))
	for _, vn := range names {
		out = append(out, sc.Units[vn])
	}
	return out
}

// tableVerdict runs the reference LR driver over the dense table of this generation: verdict and number of tokens shifted.
func tableVerdict(sc *specCtx, f *feedInfo) (string, int) {
	a := sc.Auto
	yid := map[string]int{}
	for y, n := range a.SymName {
		if _, dup := yid[n]; !dup || !a.IsNT[y] {
			yid[n] = y
		}
	}
	look := func(i int) int {
		if i >= len(f.Toks) {
			return 1
		}
		t := f.Toks[i]
		if t.Term < 0 {
			return 0
		}
		return yid[sc.Spec.Terms[t.Term].YName()]
	}
	stack := []int{0}
	pos := 0
	la := look(0)
	for steps := 0; steps < 40*len(f.Toks)+10000; steps++ {
		act := a.GTable[stack[len(stack)-1]][la]
		switch {
		case act == a.ErrCode:
			return "syntax", pos
		case act == a.AccCode:
			return "accept", pos
		case act > 0:
			stack = append(stack, act)
			pos++
			la = look(pos)
		default:
			r := -act
			stack = stack[:len(stack)-len(a.RuleR[r])]
			stack = append(stack, a.GTable[stack[len(stack)-1]][a.RuleL[r]])
		}
	}
	return "budget", pos
}
