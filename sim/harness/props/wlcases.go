package props

import (
	"sync"

	"github.com/acekingke/yaccgo/verifsim/ref"
	"github.com/acekingke/yaccgo/verifsim/rng"
	"github.com/acekingke/yaccgo/verifsim/wl"
)

var (
	fxOnce sync.Once
	fxAll  []*wl.Spec
)

// fxSpecs is family FX: every grammar with <= 2 nonterminals, <= 2 terminals,
// <= 3 rules, right-hand sides of length <= 2, kept when usable.
func fxSpecs() []*wl.Spec {
	fxOnce.Do(func() {
		wl.Exhaustive(2, 2, 3, 2, func(s *wl.Spec) bool {
			g := ref.New(s)
			if ok, _ := g.Usable(); ok {
				fxAll = append(fxAll, s)
			}
			return true
		})
	})
	return fxAll
}

// grammarCase picks the grammar of case i for the automaton-level checks
// (C09, C03, C05a, C12, C18): a deterministic function of (seed, i).
//
//	quick:    classics, 1 variation each, FX sample, random F1
//	thorough: classics, many variations, ALL of FX, random F1
func grammarCase(ctx *Ctx, i int, prec bool) (*wl.Spec, string) {
	s, k := grammarCase0(ctx, i, prec)
	s.NoRec = true
	return s, k
}

func grammarCase0(ctx *Ctx, i int, prec bool) (*wl.Spec, string) {
	r := rng.New(ctx.Seed, ctx.Prop, "case", i)
	cl := wl.Classics()
	nvar := 2
	if ctx.Thorough() {
		nvar = 12
	}
	if i < len(cl) {
		return cl[i], "classic"
	}
	i -= len(cl)
	if i < len(cl)*nvar {
		return wl.VaryClassic(cl[i%len(cl)], r), "classic-var"
	}
	i -= len(cl) * nvar
	fx := fxSpecs()
	nfx := 150
	if ctx.Thorough() {
		nfx = len(fx)
	}
	if i < nfx {
		if ctx.Thorough() {
			return fx[i], "fx"
		}
		return fx[r.Intn(len(fx))], "fx"
	}
	// the expensive families are rarer in the quick tier
	per := 40
	if !ctx.Thorough() {
		per = 160
	}
	if i%per == 21 {
		// hundreds of productions
		return wl.ManyRules(r.Sub("many")), "many-rules"
	}
	if i%per == 33 && (ctx.Prop == "C09" || ctx.Prop == "C03" || ctx.Prop == "C05" || ctx.Thorough()) {
		// (quick tier: only where the generator stops after the tables; printing a 900 x 310 table takes it a minute)
		// more than 256 grammar symbols
		return wl.ManySymbols(r.Sub("syms")), "many-symbols"
	}
	if i%per == 55 && (ctx.Prop == "C09" || ctx.Prop == "C05" || ctx.Thorough()) {
		// more than 512 productions, all alternatives of one nonterminal (rule numbers beyond nine bits)
		return wl.ManyShortRules(r.Sub("many512"), r.Range(530, 600)), "many-rules-512"
	}
	if i%per == 7 {
		// more than 64 table columns
		return wl.BigCFG(r.Sub("big")), "big"
	}
	if i%20 == 13 {
		// any printable literal, a long (sometimes low-numbered) rule, two-digit rule numbers
		return wideSpec(r.Sub("wide")), "wide"
	}
	p := wl.CFGParams{MaxNT: 5, MaxT: 5, MaxExtra: 6, MaxRhs: 4, Literals: true, Prec: prec && r.Chance(1, 2)}
	if r.Chance(1, 5) {
		p = wl.CFGParams{MaxNT: 7, MaxT: 6, MaxExtra: 10, MaxRhs: 5, Literals: true, Prec: prec && r.Chance(1, 2)}
	}
	for k := 0; ; k++ {
		s := wl.RandomCFG(r.Sub("cfg", k), p)
		s.NoRec = true
		if ok, _ := ref.New(s).Usable(); ok {
			return s, "random"
		}
	}
}

func fixedCases(ctx *Ctx, quick, thorough int) int {
	if ctx.Thorough() {
		return thorough
	}
	return quick
}

// autoCases: number of cases of the automaton-level checks: quick = a fixed
// number; thorough = all classics and variations, all of FX, nRandom random CFGs.
func autoCases(ctx *Ctx, quick, nRandom int) int {
	if !ctx.Thorough() {
		return quick
	}
	return len(wl.Classics())*13 + len(fxSpecs()) + nRandom
}
