package props

import (
	"fmt"
	"regexp"
	"sort"
	"strconv"
	"strings"

	"github.com/acekingke/yaccgo/verifsim/enga"
	"github.com/acekingke/yaccgo/verifsim/ref"
	"github.com/acekingke/yaccgo/verifsim/wl"
)

// C18: the debug listing and the DOT graph describe the automaton the tables of the same run implement.

var (
	stateHdrRe = regexp.MustCompile(`^-+state (\d+)-+$`)
	dotHeaderRe = regexp.MustCompile(`^(?:strict\s+)?digraph\s+([^\s"{]+)\s*\{`)
	gotoRe     = regexp.MustCompile(`^at\s+(\S+)\s+goto\s+(-?\d+)\s*$`) // (column padding is layout, not content)
	dotEdgeRe  = regexp.MustCompile(`^\s*state_(\d+)->state_(\d+)\[ label="((?:[^"\\]|\\.)*)" \];$`)
	dotNodeRe  = regexp.MustCompile(`^\s*state_(\d+) \[ (.*) \];$`)
	dotLabelRe = regexp.MustCompile(`label="((?:[^"\\]|\\.)*)"`)
	lookRe     = regexp.MustCompile(`^(.*): reduce rule at (\d+)$`)
)

func squash(s string) string { return strings.Join(strings.Fields(s), "") }

// itemText renders an item the way the listing does, blanks removed: L-->a@b
func itemText(a *Auto, it ref.Item) string {
	s := a.SymName[a.RuleL[it.R]] + "-->"
	for k, y := range a.RuleR[it.R] {
		if k == it.D {
			s += "@"
		}
		s += a.SymName[y]
	}
	if it.D == len(a.RuleR[it.R]) {
		s += "@"
	}
	return s
}

// dotItemText renders an item the way the graph does, blanks removed.
func dotItemText(a *Auto, it ref.Item) string {
	s := a.SymName[a.RuleL[it.R]] + "->"
	if len(a.RuleR[it.R]) == 0 {
		return s + "ε"
	}
	for k, y := range a.RuleR[it.R] {
		if k == it.D {
			s += "•"
		}
		s += shownY(a.SymName[y])
	}
	if it.D == len(a.RuleR[it.R]) {
		s += "•"
	}
	return s
}

func sortedStrs(m []string) []string { c := append([]string(nil), m...); sort.Strings(c); return c }

func sameMultiset(a, b []string) bool {
	if len(a) != len(b) {
		return false
	}
	x, y := sortedStrs(a), sortedStrs(b)
	for i := range x {
		if x[i] != y[i] {
			return false
		}
	}
	return true
}

// unescapeDot removes the backslash escapes of a DOT string / record label.
func unescapeDot(s string) string {
	var b strings.Builder
	for i := 0; i < len(s); i++ {
		if s[i] == '\\' && i+1 < len(s) {
			i++
		}
		b.WriteByte(s[i])
	}
	return b.String()
}

// splitRecord splits a record label into its top-level fields; nested {...} groups are returned as one field (without braces).
func splitRecord(s string) []string {
	var out []string
	depth := 0
	cur := ""
	for i := 0; i < len(s); i++ {
		c := s[i]
		if c == '\\' && i+1 < len(s) {
			cur += s[i : i+2]
			i++
			continue
		}
		switch {
		case c == '{':
			if depth > 0 {
				cur += "{"
			}
			depth++
		case c == '}':
			depth--
			if depth > 0 {
				cur += "}"
			}
		case c == '|' && depth == 0:
			out = append(out, cur)
			cur = ""
		default:
			cur += s[i : i+1]
		}
	}
	return append(out, cur)
}

// splitFields splits the inside of a {...} group at unescaped '|'.
func splitFields(s string) []string {
	var out []string
	cur := ""
	for i := 0; i < len(s); i++ {
		if s[i] == '\\' && i+1 < len(s) {
			cur += s[i : i+2]
			i++
			continue
		}
		if s[i] == '|' {
			out = append(out, cur)
			cur = ""
			continue
		}
		cur += s[i : i+1]
	}
	return append(out, cur)
}

func execC18(ctx *Ctx, in *Input) *Result {
	res := &Result{}
	for si, sc := range in.Scheds {
		o := enga.Run(enga.Case{Text: in.text(wl.EpiNone), Variant: in.Variant, Sched: sc, Mode: "debug", Dot: true})
		logObs(res, o)
		res.SimTicks += o.Ticks
		res.Count("runs", 1)
		if o.Outcome != enga.OutOK {
			res.Count("skipped_generation_failed(C12)", 1)
			continue
		}
		a := Snapshot(o.L)
		fail := func(class, f string, args ...any) *Result {
			res.Viol = &Violation{Class: class, Key: class, Msg: fmt.Sprintf("grammar [%s], schedule %d (%s): ", in.Spec.Short(), si, sc) + fmt.Sprintf(f, args...)}
			return res
		}
		// ------------------------------------------------ the listing
		lines := strings.Split(o.Stdout, "\n")
		section := ""
		cur := -1
		inGoto := false
		listItems := map[int][]string{}
		listGoto := map[int][]string{}
		var laLines []string
		seenStates := 0
		goodGoto, badGoto := 0, ""
		for _, ln := range lines {
			t := strings.TrimRight(ln, " ")
			switch {
			case strings.Contains(t, "Show State Closure"):
				section = "states"
				continue
			case strings.Contains(t, "SHOW TRANS"):
				section = "trans"
				continue
			case strings.Contains(t, "Show Direct Read SET"), strings.Contains(t, "Show Reads SET"), strings.Contains(t, "Show FollowSet SET"):
				section = "sets"
				continue
			case strings.Contains(t, "Show LookAhead SET"):
				section = "la"
				continue
			}
			if strings.HasPrefix(t, "nTerminals") || strings.HasPrefix(t, "warning:") || strings.HasPrefix(t, "it is nonassoc") {
				if section == "la" {
					section = "after"
				}
				continue
			}
			switch section {
			case "states":
				if m := stateHdrRe.FindStringSubmatch(t); m != nil {
					cur, _ = strconv.Atoi(m[1])
					inGoto = false
					seenStates++
					continue
				}
				if t == "GOTO:" {
					inGoto = true
					continue
				}
				if cur < 0 || t == "" {
					continue
				}
				if inGoto {
					m := gotoRe.FindStringSubmatch(t)
					if m == nil {
						if badGoto == "" {
							badGoto = t
						}
						continue
					}
					goodGoto++
					listGoto[cur] = append(listGoto[cur], m[1]+">"+m[2])
				} else {
					listItems[cur] = append(listItems[cur], squash(t))
				}
			case "la":
				if t != "" {
					laLines = append(laLines, t)
				}
			}
		}
		if seenStates == 0 && len(a.States) > 0 {
			res.Harness = "debug listing format not recognised (no state header found): " + firstLines(o.Stdout, 4)
			return res
		}
		if badGoto != "" && goodGoto == 0 {
			// not one transition line has the shape the harness reads: the listing format changed, no verdict
			res.Harness = fmt.Sprintf("debug listing format not recognised (GOTO lines such as %q)", badGoto)
			return res
		}
		if badGoto != "" {
			return fail("listing-unreadable", "GOTO line not understood (others of the same listing are): %q", badGoto)
		}
		if seenStates != len(a.States) {
			return fail("listing-state-count", "the listing shows %d states, the tables have %d", seenStates, len(a.States))
		}
		for q, its := range a.States {
			var want []string
			for _, it := range its {
				want = append(want, itemText(a, it))
			}
			if !sameMultiset(want, listItems[q]) {
				return fail("listing-items", "state %d is listed with items %v, the automaton has %v", q, sortedStrs(listItems[q]), sortedStrs(want))
			}
			var wg []string
			for y, to := range a.Goto[q] {
				wg = append(wg, fmt.Sprintf("%s>%d", a.SymName[y], to))
			}
			if !sameMultiset(wg, listGoto[q]) {
				return fail("listing-goto", "state %d is listed with transitions %v, the automaton has %v", q, sortedStrs(listGoto[q]), sortedStrs(wg))
			}
			// transitions of the listing must be the shifts/gotos of the table (unless a conflict resolution removed one)
		}
		// lookahead lines: exactly one per reduce transition, with its set
		var wantLA []string
		for _, t := range a.Trans {
			if !t.IsReduce {
				continue
			}
			var names []string
			for _, y := range t.LA {
				names = append(names, a.SymName[y])
			}
			sort.Strings(names)
			wantLA = append(wantLA, fmt.Sprintf("%d:%s:%s", t.Q, strings.TrimSuffix(itemText(a, ref.Item{R: t.Rule, D: len(a.RuleR[t.Rule])}), "@"), strings.Join(names, ",")))
		}
		var gotLA []string
		for _, ln := range laLines {
			i := strings.LastIndex(ln, " : ")
			if i < 0 {
				// empty lookahead set prints "q:rule : " (trailing blank trimmed)
				if strings.HasSuffix(ln, " :") {
					i = len(ln) - 2
					ln += " "
				} else {
					return fail("listing-unreadable", "lookahead line not understood: %q", ln)
				}
			}
			head, set := ln[:i], strings.Fields(ln[i+3:])
			sort.Strings(set)
			j := strings.Index(head, ":")
			if j < 0 {
				return fail("listing-unreadable", "lookahead line not understood: %q", ln)
			}
			gotLA = append(gotLA, fmt.Sprintf("%s:%s:%s", head[:j], squash(head[j+1:]), strings.Join(set, ",")))
		}
		if !sameMultiset(wantLA, gotLA) {
			miss, extra := diffSets(wantLA, gotLA)
			return fail("listing-lookaheads", "the 'Show LookAhead SET' section differs from the reductions of the tables: missing %v, extra %v", miss, extra)
		}
		res.Count("listings_validated", 1)

		// ------------------------------------------------ the graph
		if strings.HasPrefix(o.DotText, "PANIC") {
			return fail("graph-panic", "drawing the automaton failed: %s", o.DotText)
		}
		// the text must open as a DOT graph: `digraph <ID> {` where an unquoted ID is a name, not one of DOT's keywords
		if hm := dotHeaderRe.FindStringSubmatch(strings.TrimSpace(firstLines(strings.TrimSpace(o.DotText), 1))); hm == nil {
			if strings.Contains(firstLines(o.DotText, 1), "graph") {
				return fail("graph-header", "the graph does not open as a DOT digraph: %q", firstLines(o.DotText, 1))
			}
		} else if id := strings.ToLower(hm[1]); id == "node" || id == "edge" || id == "graph" || id == "digraph" || id == "subgraph" || id == "strict" {
			return fail("graph-header", "the graph is named with the DOT keyword %q unquoted (%q): no DOT reader accepts the file", hm[1], firstLines(o.DotText, 1))
		}
		var gotEdges, wantEdges []string
		nodeLabel := map[int]string{}
		nodeAccept := map[int]bool{}
		for _, ln := range strings.Split(o.DotText, "\n") {
			if m := dotEdgeRe.FindStringSubmatch(ln); m != nil {
				gotEdges = append(gotEdges, fmt.Sprintf("%s-%s->%s", m[1], squash(unescapeDot(m[3])), m[2]))
				continue
			}
			if m := dotNodeRe.FindStringSubmatch(ln); m != nil {
				q, _ := strconv.Atoi(m[1])
				lm := dotLabelRe.FindStringSubmatch(m[2])
				if lm == nil {
					return fail("graph-unreadable", "node %d has no label", q)
				}
				nodeLabel[q] = lm[1]
				nodeAccept[q] = strings.Contains(m[2], "fillcolor")
				continue
			}
			if strings.Contains(ln, "->") || strings.Contains(ln, "state_") {
				return fail("graph-unreadable", "graph line not understood: %q", ln)
			}
		}
		if len(nodeLabel) == 0 && len(a.States) > 0 {
			res.Harness = "DOT text format not recognised (no node statement found): " + firstLines(o.DotText, 4)
			return res
		}
		if len(nodeLabel) != len(a.States) {
			return fail("graph-node-count", "the graph has %d nodes, the tables have %d states", len(nodeLabel), len(a.States))
		}
		for q, row := range a.GTable {
			var wantLooks []string
			wantAcc := false
			for y, d := range row {
				switch {
				case d == a.AccCode:
					wantAcc = true
				case d == a.ErrCode:
				case d >= 0:
					wantEdges = append(wantEdges, fmt.Sprintf("%d-%s->%d", q, squash(shownY(a.SymName[y])), d))
				default:
					wantLooks = append(wantLooks, fmt.Sprintf("%s:%d", squash(shownY(a.SymName[y])), -d))
				}
			}
			lbl, ok := nodeLabel[q]
			if !ok {
				return fail("graph-node-missing", "state %d has no node", q)
			}
			if nodeAccept[q] != wantAcc {
				return fail("graph-accept-mark", "state %d: accept marking is %v, the table's accept entry says %v", q, nodeAccept[q], wantAcc)
			}
			fields := splitRecord(lbl)
			if len(fields) < 2 || squash(unescapeDot(fields[0])) != fmt.Sprintf("<f0>state%d", q) {
				return fail("graph-node-label", "node of state %d is labelled %q", q, lbl)
			}
			var gotItems, wantItems []string
			for _, f := range splitFields(fields[1]) {
				gotItems = append(gotItems, squash(unescapeDot(f)))
			}
			for _, it := range a.States[q] {
				wantItems = append(wantItems, squash(dotItemText(a, it)))
			}
			if !sameMultiset(gotItems, wantItems) {
				return fail("graph-items", "node of state %d shows items %v, the automaton has %v", q, sortedStrs(gotItems), sortedStrs(wantItems))
			}
			var gotLooks []string
			if len(fields) > 2 {
				for _, f := range splitFields(fields[2]) {
					m := lookRe.FindStringSubmatch(strings.TrimSpace(unescapeDot(f)))
					if m == nil {
						return fail("graph-node-label", "reduce annotation of state %d not understood: %q", q, f)
					}
					gotLooks = append(gotLooks, squash(m[1])+":"+m[2])
				}
			}
			if len(fields) > 3 {
				return fail("graph-node-label", "node of state %d has %d fields: %q", q, len(fields), lbl)
			}
			if !sameMultiset(gotLooks, wantLooks) {
				miss, extra := diffSets(wantLooks, gotLooks)
				return fail("graph-reduce-annotations", "state %d: reduce annotations differ from the negative table entries: missing %v, extra %v", q, miss, extra)
			}
		}
		if !sameMultiset(gotEdges, wantEdges) {
			miss, extra := diffSets(wantEdges, gotEdges)
			return fail("graph-edges", "edges differ from the shift/goto entries of the table: missing %v, extra %v", miss, extra)
		}
		res.Count("graphs_validated", 1)
		res.Count("graph_edges_validated", len(wantEdges))
	}
	res.Keys = append(res.Keys, hkey(in.Spec.Short()))
	if in.Index%40 == 0 {
		res.Sample = map[string]any{"grammar": in.Spec.Short(), "schedules": len(in.Scheds)}
	}
	return res
}

func diffSets(want, got []string) (missing, extra []string) {
	w := map[string]int{}
	for _, x := range want {
		w[x]++
	}
	for _, x := range got {
		if w[x] > 0 {
			w[x]--
		} else if len(extra) < 5 {
			extra = append(extra, x)
		}
	}
	for x, n := range w {
		if n > 0 && len(missing) < 5 {
			missing = append(missing, x)
		}
	}
	sort.Strings(missing)
	return
}

func init() {
	Register(&Checker{
		ID: "C18", Level: "exploration", Engine: "A",
		Rule:     "case = (grammar, layout, K map-order schedules); the real debug path (DebugFlags on, stdout captured) and DrawGrammar on the table of the SAME run; the listing (state numbers, items, GOTO lines, one lookahead line per reduction) and the DOT text (nodes, items, edges, reduce annotations, accept marking) are parsed and compared with the run's item sets, transitions, lookaheads and dense table. Numbering differs per schedule; the comparison is within one run. distinct_nontrivial = distinct grammars.",
		NumCases: func(ctx *Ctx) int { return autoCases(ctx, 2500, 30000) },
		Gen:      genAutoCase(true, 2, 5), Exec: execC18,
		Probes: []string{"listings_validated", "graphs_validated"},
		Assume: []string{"the -g path pipes this DOT text to `dot`, which is not installed; the text is taken before that", "listing and graph are recognised by their line formats (state header, GOTO lines, lookahead lines; DOT node/edge statements with record labels)"},
		Real:   []string{"yaccgo debug path and DrawGrammar (instrumented copy)", "gographviz"},
		Stubs:  []string{"map-iteration order shim", "stdout capture"},
	})
}
