package props

import (
	"context"
	"fmt"
	"os"
	"os/exec"
	"path/filepath"
	"strings"
	"sync"
	"time"

	"github.com/acekingke/yaccgo/verifsim/enga"
	"github.com/acekingke/yaccgo/verifsim/rng"
	"github.com/acekingke/yaccgo/verifsim/wl"
)

type c13Base struct {
	Name    string
	Text    string
	Ticks   int64
	Hangs   bool
	HangObs *enga.Obs
	Graph   bool // cases on this base that generate Go do so with -g
}

// c13Wall: real-time limit of one generation in this check. The texts are a few kilobytes and take milliseconds; two
// minutes is the property's "deadline of seconds where milliseconds are normal" with a wide margin for a loaded machine.
const c13Wall = 120 * time.Second

// c13BaseBudget: a tick budget no well-formed text of this size needs.
func c13BaseBudget(text string) int64 { return 20_000_000 + 20_000*int64(len(text)) }

var (
	c13Once  sync.Once
	c13bases []c13Base
	c13cum   []int // cumulative number of truncation cases
)

func c13Bases(ctx *Ctx) []c13Base {
	c13Once.Do(func() {
		names, texts := exampleTexts(ctx)
		for i := range names {
			c13bases = append(c13bases, c13Base{Name: "examples/" + names[i], Text: texts[i]})
		}
		n := 8
		if ctx.Thorough() {
			n = 300
		}
		r := rng.New(ctx.Seed, "C13", "bases")
		for k := 0; k < n; k++ {
			rr := r.Sub(k)
			s := mixedSpec(ctx, rr.Sub("spec"))
			v := wl.AllVariants[rr.Intn(len(wl.AllVariants))]
			lay := rr.Uint64() | 1
			c13bases = append(c13bases, c13Base{Name: fmt.Sprintf("rendered-%d(%s)", k, s.Family), Text: renderSpec(s, v, lay, wl.EpiMinimal)})
		}
		// one base whose automaton drawing is far larger than a pipe buffer (64 KiB): with -g the graph goes to a child
		// process, and whoever writes it must not wait for a reader that has not been started
		{
			ms := wl.ManyRulesN(r.Sub("graph-base"), 130)
			c13bases = append(c13bases, c13Base{Name: "rendered-graph(many-rules 130)", Text: renderSpec(ms, wl.Variant{Lang: "go"}, 0, wl.EpiMinimal), Graph: true})
		}
		total := 0
		for i := range c13bases {
			t := c13bases[i].Text
			o := enga.Run(enga.Case{Text: t, Variant: wl.Variant{Lang: "go"}, Sched: enga.Canonical(), Mode: "gen", Budget: c13BaseBudget(t), WallLimit: c13Wall})
			c13bases[i].Ticks = o.Ticks
			if o.Outcome == enga.OutHang || o.Outcome == enga.OutDeadlock {
				c13bases[i].Hangs = true // the undamaged base does not finish on this tree: every case on it reports that
				c13bases[i].HangObs = o
			}
			total += len(c13bases[i].Text) + 1
			c13cum = append(c13cum, total)
		}
	})
	return c13bases
}

var c13Alphabet = []byte("%{}<>'\"/*:|; \n$\\0aZ_-")

func c13Edits(ctx *Ctx) int {
	if ctx.Thorough() {
		return 400000
	}
	return 9000
}

func genC13(ctx *Ctx, i int) *Input {
	bases := c13Bases(ctx)
	in := &Input{Index: i}
	total := c13cum[len(c13cum)-1]
	var b int
	// edits are spread evenly among the truncations, so that a wall-clock budget cuts both kinds proportionally
	isEdit, k := mixCases(c13Edits(ctx), total, i)
	if !isEdit {
		i := k
		for b = 0; c13cum[b] <= i; b++ {
		}
		at := i
		if b > 0 {
			at = i - c13cum[b-1]
		}
		in.Corrupt = &Corruption{Kind: "truncate", At: at}
	} else {
		r := rng.New(ctx.Seed, "C13", "edit", k)
		b = r.Intn(len(bases))
		n := len(bases[b].Text)
		kinds := []string{"flip", "flip", "insert", "delete", "dupsector", "dropsector", "swapsector", "flip+truncate", "insert-rune", "rune-at-mark", "rune-at-mark", "escape-at-end"}
		c := &Corruption{Kind: rng.Pick(r, kinds), At: r.Intn(n), N: 16}
		switch c.Kind {
		case "flip", "insert", "flip+truncate":
			c.Arg = int(rng.Pick(r, c13Alphabet))
			if c.Kind == "flip+truncate" {
				c.N = r.Intn(n + 1)
			}
		case "swapsector":
			c.Arg = r.Intn(n)
		case "escape-at-end":
			// the file ends inside a character literal written with a backslash escape: ... '\n<EOF>
			c.Kind = "escape-at-end"
			var quotes []int
			for k := 0; k < n; k++ {
				if bases[b].Text[k] == '\'' {
					quotes = append(quotes, k)
				}
			}
			if len(quotes) > 0 {
				c.At = quotes[r.Intn(len(quotes))]
			}
			c.Arg = r.Intn(8)
		case "rune-at-mark":
			// faults placed where the lexer is between two things: right after a directive word, around %% %{ %} and the
			// braces, colons and bars of the file - an odd blank or an invisible character there is what pasted text brings
			spots := markSpots(bases[b].Text)
			c.Kind = "insert-rune-at-mark"
			if len(spots) > 0 {
				c.At = spots[r.Intn(len(spots))]
			}
			c.Arg = rng.Pick(r, []int{0xA0, 0x3000, 0x0C, 0x85, 0x0B, 0x0D, 0x2000, 0x2028, 0xFEFF, 0x200B, 0x1680, 0, '\t', 0x0663, 0xE9})
		case "insert-rune":
			// characters outside ASCII: digits and letters of other scripts, no-break space, an invalid byte, NUL
			c.Arg = rng.Pick(r, []int{0x0663, 0x0967, 0xFF13, 0xE9, 0x4E2D, 0xA0, 0x2028, 0x1F600, -1, 0})
		}
		in.Corrupt = c
	}
	in.Base = bases[b].Name
	in.Extra = map[string]any{"base_index": b}
	switch i % 4 {
	case 0:
		in.Mode, in.Variant = "gen", wl.Variant{Lang: "go"}
	case 1:
		in.Mode, in.Variant = "debug", wl.Variant{Lang: "go"}
	case 2:
		in.Mode, in.Variant = "gen", wl.Variant{Lang: "ts"}
	default:
		in.Mode, in.Variant = "gen", wl.Variant{Lang: "go", Object: true, Unpack: true}
	}
	// some generations draw the automaton in the same run (-g): the graph goes to a child process through a pipe
	if in.Mode == "gen" && in.Variant.Lang == "go" && (i%12 == 0 || bases[b].Graph) {
		in.Extra["graph"] = true
	}
	in.Scheds = []enga.Schedule{enga.Canonical()}
	if i%7 == 0 {
		in.Scheds = []enga.Schedule{{Seed: uint64(i), Default: "shuffle"}}
	}
	return in
}

// markSpots lists the byte offsets right after each directive word, and right before / after each of % { } : | ; < >.
func markSpots(t string) []int {
	var out []int
	for i := 0; i < len(t); i++ {
		switch t[i] {
		case '%':
			j := i + 1
			for j < len(t) && (t[j] >= 'a' && t[j] <= 'z') {
				j++
			}
			out = append(out, i, j)
		case '{', '}', ':', '|', ';', '<', '>':
			out = append(out, i, i+1)
		}
	}
	return out
}

// Apply performs the corruption on a text.
func (c *Corruption) Apply(t string) string {
	b := []byte(t)
	n := len(b)
	at := c.At
	if at > n {
		at = n
	}
	sector := func(p int) (int, int) {
		lo := p
		hi := p + c.N
		if hi > n {
			hi = n
		}
		return lo, hi
	}
	switch c.Kind {
	case "truncate":
		return string(b[:at])
	case "flip":
		if at < n {
			b[at] = byte(c.Arg)
		}
		return string(b)
	case "flip+truncate":
		if at < n {
			b[at] = byte(c.Arg)
		}
		cut := c.N
		if cut > n {
			cut = n
		}
		return string(b[:cut])
	case "insert":
		return string(b[:at]) + string([]byte{byte(c.Arg)}) + string(b[at:])
	case "escape-at-end":
		esc := []string{"\\n", "\\t", "\\x4", "\\0", "\\101", "\\u00e", "\\\\", "\\n'"}[c.Arg%8]
		if at < n && b[at] == '\'' {
			return string(b[:at+1]) + esc
		}
		return string(b[:at]) + "'" + esc
	case "insert-rune", "insert-rune-at-mark":
		ins := string(rune(c.Arg))
		if c.Arg < 0 {
			ins = "\xff"
		}
		return string(b[:at]) + ins + string(b[at:])
	case "delete":
		if at < n {
			return string(b[:at]) + string(b[at+1:])
		}
		return string(b)
	case "dupsector":
		lo, hi := sector(at)
		return string(b[:hi]) + string(b[lo:hi]) + string(b[hi:])
	case "dropsector":
		lo, hi := sector(at)
		return string(b[:lo]) + string(b[hi:])
	case "swapsector":
		lo1, hi1 := sector(at)
		lo2, hi2 := sector(c.Arg)
		if lo2 < lo1 {
			lo1, hi1, lo2, hi2 = lo2, hi2, lo1, hi1
		}
		if hi1 > lo2 {
			return string(b)
		}
		return string(b[:lo1]) + string(b[lo2:hi2]) + string(b[hi1:lo2]) + string(b[lo1:hi1]) + string(b[hi2:])
	}
	return t
}

func execC13(ctx *Ctx, in *Input) *Result {
	res := &Result{}
	var baseText string
	var baseTicks int64
	var baseHang *enga.Obs
	baseItselfHangs := false
	if in.Text != "" && in.Corrupt == nil {
		baseText = in.Text
	} else {
		bases := c13Bases(ctx)
		bi := toInt(in.Extra["base_index"])
		if in.Text != "" {
			baseText = in.Text // explicit base carried by a minimised replay
		} else {
			if bi >= len(bases) || bases[bi].Name != in.Base {
				res.Harness = "base text " + in.Base + " not available on this tree"
				return res
			}
			baseText = bases[bi].Text
			baseTicks = bases[bi].Ticks
			if bases[bi].Hangs {
				// the undamaged base does not finish; that run (made once per process) is the observation
				baseHang = bases[bi].HangObs
				baseTicks = 5000
				baseItselfHangs = true
			}
		}
	}
	text := baseText
	if in.Corrupt != nil {
		text = in.Corrupt.Apply(baseText)
		res.Count("fault_"+in.Corrupt.Kind, 1)
	}
	explicitBudget := int64(0)
	if in.Text != "" && in.Corrupt == nil {
		// an explicit text judged as it stands (a minimised case whose damage has been applied): no base to compare
		// with, so the budget is the one no well-formed text of this size needs
		explicitBudget = c13BaseBudget(text)
		baseTicks = 1
	}
	if baseTicks == 0 {
		// an explicit base (minimised replay): measure it under a budget no well-formed text of this size needs
		o := enga.Run(enga.Case{Text: baseText, Variant: wl.Variant{Lang: "go"}, Sched: enga.Canonical(), Mode: "gen", Budget: c13BaseBudget(baseText), WallLimit: c13Wall})
		baseTicks = o.Ticks
		if o.Outcome == enga.OutHang || o.Outcome == enga.OutDeadlock {
			// the base itself does not finish: damage is not even needed; judge the base as the text
			baseTicks = 5000
			text = baseText
			baseItselfHangs = true
		}
	}
	budget := 200*baseTicks + 1_000_000
	budgetNote := "200 x base + 1e6"
	if explicitBudget > 0 {
		budget, budgetNote = explicitBudget, "2e7 + 2e4 x bytes, far above any well-formed text of this size"
	}
	sc := enga.Canonical()
	if len(in.Scheds) > 0 {
		sc = in.Scheds[0]
	}
	var o *enga.Obs
	if baseHang != nil {
		o, text = baseHang, baseText
		in = &Input{Index: in.Index, Base: in.Base, Corrupt: &Corruption{Kind: "none"}, Mode: "gen", Variant: wl.Variant{Lang: "go"}, Extra: in.Extra}
	} else {
		graph, _ := in.Extra["graph"].(bool)
		if graph {
			res.Count("generations_with_-g(child process)", 1)
		}
		o = enga.Run(enga.Case{Text: text, Variant: in.Variant, Sched: sc, Mode: in.Mode, Budget: budget, WallLimit: c13Wall, Graph: graph})
	}
	logObs(res, o)
	res.SimTicks += o.Ticks
	res.Count("runs", 1)
	res.Count("outcome_"+o.Outcome, 1)
	if o.Leaked > 0 {
		res.Count("lexer_task_left_parked(not judged)", 1)
	}
	if o.Outcome == enga.OutHang || o.Outcome == enga.OutDeadlock {
		// ground truth: the real CLI on the same bytes, generous wall-clock deadline
		realHangs, note := realCLIHangs(ctx, text, in, strings.HasPrefix(o.Diag, "still running after"))
		if !realHangs {
			res.Harness = fmt.Sprintf("simulated run ended %q (%s) but the real CLI terminated (%s): the tick budget or the seams misrepresent the code", o.Outcome, o.Diag, note)
			return res
		}
		corr := in.Corrupt
		if corr == nil {
			corr = &Corruption{Kind: "explicit text"}
		}
		sub := 0
		if baseItselfHangs {
			sub = 1 // tells the shrinker that the undamaged base is the failing text
			budget, budgetNote = c13BaseBudget(text), "2e7 + 2e4 x bytes, far above any well-formed text of this size; the UNDAMAGED base does not finish"
		}
		res.Viol = &Violation{Class: "hang", Key: "hang:" + hangShape(text), Sub: sub,
			Msg: fmt.Sprintf("%s of %s (%s, mode %s/%s): %s after %d ticks (budget %d = %s); the real CLI on the same %d bytes was killed after 10 s. Text ends with: %q",
				corr.Kind, in.Base, fmt.Sprint(*corr), in.Mode, in.Variant, o.Outcome, o.Ticks, budget, budgetNote, len(text), tailStr(text, 40))}
		return res
	}
	res.Keys = append(res.Keys, hkey(text))
	if in.Index%997 == 0 {
		res.Sample = map[string]any{"base": in.Base, "fault": in.Corrupt, "mode": in.Mode, "outcome": o.Outcome, "diag": firstLines(o.Diag, 1), "ticks": o.Ticks}
	}
	return res
}

func tailStr(s string, n int) string {
	if len(s) > n {
		return s[len(s)-n:]
	}
	return s
}

// hangShape names what the text ends in / which directive the parser was in: the finding key.
func hangShape(text string) string {
	// last directive before the end of the text
	last := ""
	for i := 0; i < len(text); i++ {
		if text[i] == '%' {
			j := i + 1
			for j < len(text) && (text[j] >= 'a' && text[j] <= 'z') {
				j++
			}
			if j > i+1 {
				last = text[i:j]
			}
		}
	}
	return "after " + last
}

var realHangChecks int

func realCLIHangs(ctx *Ctx, text string, in *Input, always bool) (bool, string) {
	// each confirmation costs 10 s of wall clock: confirm the first few per process, then trust the simulation - except
	// for a hang decided by the real-time limit, which is always confirmed
	realHangChecks++
	if realHangChecks > 2 && ctx.Tier != "replay-confirm" && !always {
		return true, "not re-confirmed (earlier hangs of this run were)"
	}
	bin := filepath.Join(ctx.Scratch, "yaccgo-real")
	if _, err := os.Stat(bin); err != nil {
		return true, "no real CLI available; trusting the simulation"
	}
	cliCounter++
	dir := filepath.Join(ctx.Scratch, fmt.Sprintf("hang-%d-%d", os.Getpid(), cliCounter))
	os.MkdirAll(dir, 0o755)
	defer os.RemoveAll(dir)
	inp := filepath.Join(dir, "in.y")
	os.WriteFile(inp, []byte(text), 0o644)
	args := []string{"generate", "go", inp, filepath.Join(dir, "out")}
	if g, _ := in.Extra["graph"].(bool); g && in.Mode != "debug" {
		args = []string{"generate", "-g", filepath.Join(dir, "graph.png"), "go", inp, filepath.Join(dir, "out")}
	}
	if in.Mode == "debug" {
		args = []string{"debug", inp}
	} else if in.Variant.Lang == "ts" {
		args[len(args)-3] = "typescript"
	}
	c, cancel := context.WithTimeout(context.Background(), 10*time.Second)
	defer cancel()
	cmd := exec.CommandContext(c, bin, args...)
	err := cmd.Run()
	if c.Err() != nil {
		return true, "killed after 10 s"
	}
	return false, fmt.Sprint("exit: ", err)
}

func init() {
	Register(&Checker{
		ID: "C13", Level: "fault_enumeration", Engine: "A",
		Rule:     "fault = damage to the grammar file handed to yaccgo while its lexer task and parser task run over their channel: EVERY truncation point of every base text (the repository's examples + rendered grammars of all families), then seeded byte substitutions/insertions/deletions from the grammar's own alphabet and duplicated/dropped/swapped 16-byte sectors. Each damaged text runs through generate (go, go -o -u, typescript) or debug under a tick budget of 200 x ticks(base) + 1e6. distinct_nontrivial = distinct damaged texts that were run to an outcome.",
		NumCases: func(ctx *Ctx) int { c13Bases(ctx); return c13cum[len(c13cum)-1] + c13Edits(ctx) },
		Gen:      genC13, Exec: execC13,
		FaultKeys: []string{"fault_truncate", "fault_flip", "fault_insert", "fault_insert-rune", "fault_insert-rune-at-mark", "fault_escape-at-end", "fault_delete", "fault_dupsector", "fault_dropsector", "fault_swapsector", "fault_flip+truncate"},
		Probes:    []string{"outcome_ok", "outcome_error", "outcome_panic", "generations_with_-g(child process)"},
		Real:      []string{"yaccgo generator (instrumented copy): lexer task, parser task, channel, table construction, code generation, -g drawing incl. process start and pipe", "the uninstrumented CLI (confirmation of every hang)"},
		Stubs:     []string{"`dot` (graphviz, absent in the sandbox): a stand-in on the PATH that reads its input to the end"},
		Assume:    []string{"every loop of yaccgo carries a tick (the instrumenter adds one to every for/range body, function entry and goto label)", "a run that needs more than 200x the ticks of its well-formed base is not going to finish"},
	})
}
