package props

import (
	"fmt"
	"reflect"
	"sort"

	"github.com/acekingke/yaccgo/verifsim/ref"

	"github.com/acekingke/yaccgo/verifsim/enga"
	"github.com/acekingke/yaccgo/verifsim/engbrt"
	"github.com/acekingke/yaccgo/verifsim/rng"
	"github.com/acekingke/yaccgo/verifsim/wl"
)

// Engine-B checks that run generated parsers on classified inputs:
// C01 soundness, C02 completeness, C06 error reporting, C07 semantic values, C08 variant agreement, C05 (b) packed vs -u.

func genParsers(prop string, conflictFree bool) func(ctx *Ctx, i int) *Input {
	return func(ctx *Ctx, i int) *Input {
		r := rng.New(ctx.Seed, prop, "batch", i)
		n := 6
		if ctx.Thorough() {
			n = 10
		}
		in := &Input{Index: i, Sub: r.Uint64()}
		in.Specs = grammarsForParsers(ctx, r.Sub("grammars"), n, conflictFree)
		in.Variants = wl.AllVariants
		if r.Chance(2, 3) {
			in.LayoutSeed = r.Uint64() | 1
		}
		// one schedule per batch: canonical for even batches, a swarm schedule for odd ones
		if i%2 == 0 {
			in.Scheds = []enga.Schedule{enga.Canonical()}
		} else {
			in.Scheds = []enga.Schedule{enga.Swarm(r.Uint64(), i/2, ctx.Sites)}
		}
		return in
	}
}

func documentedError(u *genUnit, pr *engbrt.ParseResult) bool {
	return pr.Outcome == "syntax"
}

func execParsers(prop string) func(ctx *Ctx, in *Input) *Result {
	return func(ctx *Ctx, in *Input) *Result {
		res := &Result{}
		variants := in.Variants
		if len(variants) == 0 {
			variants = wl.AllVariants
		}
		pb, ok := prepareBatch(ctx, res, in, variants, wl.EpiFull, sizesFor(ctx))
		defer pb.cleanup()
		if !ok {
			return res
		}
		if prop == "C08" {
			// the command line wiring: `generate [-u] [-o] go|typescript` must select exactly what the library entry
			// points produce with the corresponding mode switches (same tree, uninstrumented binary, separate process)
			for si, sc := range pb.Specs {
				for _, u := range sc.sortedUnits() {
					if u.GenErr != "" {
						continue
					}
					real, herr := realCLI(ctx, u.Text, u.Variant, 1)
					if herr != "" {
						res.Harness = herr
						return res
					}
					res.Count("cli_generations_compared", 1)
					if len(real) == 1 && string(real[0]) != string(u.Out) {
						res.Viol = &Violation{Class: "cli-selects-other-output", Key: "cli-selects-other-output", Sub: si,
							Msg: fmt.Sprintf("grammar [%s]: `yaccgo generate` with the flags of variant %s writes a file that differs from what the library produces for that variant (first difference: %s): the flags are wired to other mode switches",
								sc.Spec.Short(), u.Variant, firstDiff(u.Out, real[0]))}
						return res
					}
				}
			}
		}
		results, meta, ok := pb.runParses(ctx, res, false)
		if !ok {
			return res
		}
		// matrices for C05/C08
		var matrices map[string][][]int
		if prop == "C05" || prop == "C08" {
			matrices, ok = pb.runMatrices(ctx, res)
			if !ok {
				return res
			}
		}
		for si, sc := range pb.Specs {
			fail := func(class, key, f string, a ...any) *Result {
				res.Viol = &Violation{Class: class, Key: key, Sub: si, Msg: fmt.Sprintf("grammar [%s]: ", sc.Spec.Short()) + fmt.Sprintf(f, a...)}
				return res
			}
			vnames := make([]string, 0, len(sc.Units))
			for vn := range sc.Units {
				vnames = append(vnames, vn)
			}
			sort.Strings(vnames)
			usableUnits := 0
			for _, vn := range vnames {
				u := sc.Units[vn]
				if u.GenErr != "" {
					res.Count("skipped_generation_failed(C12)", 1)
					continue
				}
				if u.CompErr != "" {
					res.Count("skipped_does_not_compile(C16)", 1)
					continue
				}
				usableUnits++
			}
			if usableUnits == 0 {
				continue
			}
			clash := rawCodesClash(sc.Auto, sc.Feeds)
			for fi := range sc.Feeds {
				f := &sc.Feeds[fi]
				skipRaw := false
				for _, t := range f.Toks {
					if t.Term == -2 && clash[t.V] {
						skipRaw = true
					}
				}
				if skipRaw {
					res.Count("excluded_raw_code_is_a_token_code", 1)
					continue
				}
				var firstOK *engbrt.ParseResult
				var firstName string
				unassigned := false
				for _, vn := range vnames {
					u := sc.Units[vn]
					if u.GenErr != "" || u.CompErr != "" {
						continue
					}
					prs := results[u.Name]
					if fi >= len(prs) {
						res.Harness = fmt.Sprintf("no result for parser %s input %d", u.Name, fi)
						return res
					}
					pr := &prs[fi]
					where := fmt.Sprintf("variant %s, input [%s] (%s)", vn, feedStrShort(sc.Spec, f.Toks), f.Kind)
					res.Count("outcome_"+pr.Outcome, 1)
					if len(f.Toks) >= 10000 {
						res.Count("probe_parse_of_10000_tokens_or_more", 1)
					} else if len(f.Toks) >= 1000 {
						res.Count("probe_parse_of_1000_tokens_or_more", 1)
					}
					switch prop {
					case "C01", "C07":
						if pr.Outcome == "accept" {
							recs := toRecs(pr.Recs)
							if sc.Spec.NoRec {
								// the actions do not identify their rule: take the reduction sequence from a reference run
								// over the tables of the same generation (the grammar is conflict free)
								recs = tableRecs(sc, f)
							}
							val, err := sc.G.Derivation(f.Toks, recs, pr.Fetched)
							if prop == "C01" {
								if !f.Sentence && err == nil && !sc.Spec.NoRec {
									// two references disagree: the recorded reductions replay as a derivation of the input, yet the Earley
									// recogniser says the grammar does not derive it. That is harness trouble, never a violation.
									res.Harness = fmt.Sprintf("references disagree on grammar [%s], input [%s]: derivation replay succeeds, Earley rejects", sc.Spec.Short(), feedStr(sc.Spec, f.Toks))
									return res
								}
								if !f.Sentence {
									return fail("accepted-non-sentence", "accepted-non-sentence", "%s: accepted, but the grammar does not derive this token sequence (reductions: %v)", where, pr.Recs)
								}
								if err != nil {
									return fail("invalid-derivation", "invalid-derivation", "%s: accepted, but the recorded reductions are no rightmost derivation in reverse: %v (reductions: %v)", where, err, pr.Recs)
								}
								res.Count("derivations_validated", 1)
							} else {
								if err != nil {
									res.Count("skipped_invalid_derivation(C01)", 1)
									continue
								}
								got := valueOf(pr.Value, u, sc.Spec)
								if sc.Spec.NTs[sc.Spec.Start].Tag == "" {
									continue
								}
								if sc.G.UsedUnassigned {
									res.Count("probe_unassigned_value_used", 1)
									if u.Variant.Lang == "ts" {
										// Go starts $$ at the zero value, TypeScript at undefined; the statement does not pin an unassigned $$
										res.Count("excluded_unassigned_value_in_typescript", 1)
										continue
									}
								}
								if !reflect.DeepEqual(got, val) {
									return fail("wrong-value", "wrong-value", "%s: returned value %v, evaluating the actions bottom-up over the parse tree gives %v", where, got, val)
								}
								res.Count("values_compared", 1)
								if len(pr.Recs) > 6 {
									res.Count("probe_deep_tree", 1)
								}
							}
						}
					case "C02":
						if sc.conflictFree() && f.Sentence {
							res.Count("sentences_checked", 1)
							if pr.Outcome != "accept" {
								return fail("sentence-rejected", "sentence-rejected", "%s: the grammar is LALR(1) and derives this input, but the parser ended with %s %s", where, pr.Outcome, pr.Msg)
							}
						}
					case "C06":
						if pr.Outcome == "budget" && !sc.conflictFree() {
							// a grammar with conflicts resolved by default may loop (e.g. reduce an empty rule for ever), as with yacc;
							// the statement promises termination for conflict-free grammars only
							res.Count("not_judged_conflict_grammar_does_not_terminate", 1)
							continue
						}
						if !f.Sentence {
							res.Count("non_sentences_checked", 1)
							if pr.Outcome != "syntax" {
								class := "non-sentence-" + pr.Outcome
								return fail(class, class, "%s: not a sentence, but the parser ended with %q %s instead of the documented syntax error", where, pr.Outcome, pr.Msg)
							}
							if sc.conflictFree() {
								if pr.Fetched != f.BadPos+1 {
									return fail("error-position", "error-position", "%s: first token that cannot continue any sentence is #%d, so %d tokens should have been requested from the lexer; the parser requested %d", where, f.BadPos, f.BadPos+1, pr.Fetched)
								}
								res.Count("error_positions_checked", 1)
							}
						} else if !sc.conflictFree() && pr.Outcome != "accept" && pr.Outcome != "syntax" {
							class := "sentence-" + pr.Outcome
							return fail(class, class, "%s: parser ended with %q %s (neither accept nor the documented syntax error)", where, pr.Outcome, pr.Msg)
						}
					case "C08", "C05":
						if prop == "C05" && u.Variant.Lang != "go" {
							continue
						}
						if firstOK == nil {
							firstOK, firstName = pr, vn
							unassigned = false
							if pr.Outcome == "accept" {
								sc.G.Derivation(f.Toks, toRecs(pr.Recs), pr.Fetched)
								unassigned = sc.G.UsedUnassigned
							}
							continue
						}
						if unassigned && u.Variant.Lang == "ts" && pr.Outcome == "accept" && firstOK.Outcome == "accept" {
							// compare everything but the value (an unassigned $$ is 0 in Go and undefined in TypeScript)
							cp := *pr
							cp.Value = firstOK.Value
							pr = &cp
							res.Count("excluded_unassigned_value_in_typescript", 1)
						}
						if d := diffParse(firstOK, pr, sc, u); d != "" {
							class := "variants-disagree"
							return fail(class, class, "input [%s] (%s): variant %s and variant %s disagree: %s", feedStr(sc.Spec, f.Toks), f.Kind, firstName, vn, d)
						}
						res.Count("pairs_compared", 1)
					}
				}
			}
			// table level
			if prop == "C05" || prop == "C08" {
				if sc.Auto != nil {
					for _, vn := range vnames {
						u := sc.Units[vn]
						m, ok := matrices[u.Name]
						if !ok {
							continue
						}
						jr := meta[u.Name]
						for s := range sc.Auto.GTable {
							for a, want := range sc.Auto.GTable[s] {
								got := m[s][a]
								// normalise the error/accept codes of this parser to those of the table
								if jr != nil {
									if got == jr.ErrCode {
										got = sc.Auto.ErrCode
									} else if got == jr.AccCode {
										got = sc.Auto.AccCode
									}
								}
								if got != want {
									return fail("generated-lookup-differs", "generated-lookup-differs", "variant %s: the generated lookup for state %d, symbol %d (%s) returns %d, the table built in the same run has %d", vn, s, a, sc.Auto.SymName[a], m[s][a], want)
								}
							}
						}
						res.Count("matrices_compared", 1)
					}
				}
			}
			if len(sc.Feeds) > 0 {
				res.Keys = append(res.Keys, hkey(sc.Spec.Short()))
			}
			if sc.conflictFree() {
				res.Count("probe_conflict_free_grammar", 1)
			} else {
				res.Count("probe_conflict_grammar", 1)
			}
		}
		if len(pb.Specs) > 0 {
			sc := pb.Specs[0]
			ex := ""
			if len(sc.Feeds) > 0 {
				ex = feedStr(sc.Spec, sc.Feeds[len(sc.Feeds)/2].Toks)
			}
			res.Sample = map[string]any{"grammars_in_batch": len(pb.Specs), "first_grammar": sc.Spec.Short(), "inputs_for_it": len(sc.Feeds), "example_input": ex,
				"variants": len(variants), "schedule": fmt.Sprint(in.Scheds)}
		}
		return res
	}
}

// diffParse compares two parse results of the same input ("" = equal).
func diffParse(a, b *engbrt.ParseResult, sc *specCtx, ub *genUnit) string {
	return diffParse2(a, b, sc, ub, false)
}

// diffParse2: sameLang also compares what the parser handed to the lexer (only comparable within one target language).
func diffParse2(a, b *engbrt.ParseResult, sc *specCtx, ub *genUnit, sameLang bool) string {
	ca, cb := a.Outcome, b.Outcome
	if ca != cb {
		return fmt.Sprintf("verdict %s vs %s (%s / %s)", ca, cb, a.Msg, b.Msg)
	}
	if len(a.Recs) != len(b.Recs) {
		return fmt.Sprintf("%d vs %d reductions (%v vs %v)", len(a.Recs), len(b.Recs), a.Recs, b.Recs)
	}
	for i := range a.Recs {
		if a.Recs[i] != b.Recs[i] {
			return fmt.Sprintf("reduction %d is %v vs %v", i, a.Recs[i], b.Recs[i])
		}
	}
	if a.Fetched != b.Fetched {
		return fmt.Sprintf("%d vs %d tokens requested", a.Fetched, b.Fetched)
	}
	if sameLang && a.InHash != b.InHash {
		return fmt.Sprintf("the semantic values handed to the lexer differ (hash %s vs %s): the lookahead value is not fresh", a.InHash, b.InHash)
	}
	if ca == "accept" {
		va, vb := valueOf(a.Value, nil, sc.Spec), valueOf(b.Value, ub, sc.Spec)
		if !reflect.DeepEqual(va, vb) {
			return fmt.Sprintf("value %v vs %v", va, vb)
		}
	}
	return ""
}

// runMatrices reads the full action matrix of every unit through its generated lookup.
func (pb *parserBatch) runMatrices(ctx *Ctx, res *Result) (map[string][][]int, bool) {
	var goJobs, tsJobs []engbrt.Job
	for _, sc := range pb.Specs {
		if sc.Auto == nil {
			continue
		}
		for _, u := range sc.sortedUnits() {
			if u.GenErr != "" || u.CompErr != "" {
				continue
			}
			j := engbrt.Job{Parser: u.Name, Kind: "matrix", NS: len(sc.Auto.GTable), NA: len(sc.Auto.SymName)}
			if u.Variant.Lang == "go" {
				goJobs = append(goJobs, j)
			} else {
				tsJobs = append(tsJobs, j)
			}
		}
	}
	out := map[string][][]int{}
	if pb.Go != nil && len(goJobs) > 0 {
		rs, err := pb.Go.Run(goJobs)
		if err != nil {
			res.Harness = "engine B run: " + err.Error()
			return nil, false
		}
		for i := range rs {
			out[rs[i].Parser] = rs[i].Matrix
		}
	}
	if len(tsJobs) > 0 {
		rs, err := engbRunTS(ctx, pb, tsJobs)
		if err != nil {
			res.Harness = "engine B (node): " + err.Error()
			return nil, false
		}
		for i := range rs {
			if rs[i].MatrixMissing {
				// the TypeScript file has no table called StateActionArray (a private name a tree may change): the cell-level
				// comparison is skipped for it; the parsers are still compared on every input
				res.Count("typescript_table_not_readable_by_name(skipped)", 1)
				continue
			}
			if rs[i].Err == "" {
				out[rs[i].Parser] = rs[i].Matrix
			}
		}
	}
	return out, true
}

func init() {
	common := []string{"reference models: Earley recogniser (membership, first token no sentence continues with), derivation replay, attribute evaluation, LR(1)-merge LALR(1) classification", "grammars whose canonical LR(1) collection exceeds 6000 states are not used"}
	real := []string{"yaccgo generator (instrumented copy of the current tree, in-process)", "go build of every generated parser", "the generated parsers themselves (Go: linked into one driver; TypeScript: node after type erasure)"}
	stubs := []string{"map-iteration order shim", "TypeScript type eraser (no tsc installed)", "token source / lexer (simulated environment)"}
	type def struct {
		id, rule string
		cf       bool
		q, t     int
		probes   []string
	}
	defs := []def{
		{"C01", "case = batch of grammars (textbook separators incl. conflict grammars resolved by default or precedence, operator tables, random CFGs) x 5 output variants generated under one map-order schedule (canonical / swarm alternating); inputs per grammar: random sentences, every string up to a length bound, mutated sentences, every prefix of sampled sentences (EOF at an arbitrary instant), unknown token codes. Every accepted parse is replayed as a derivation against the grammar as specified. distinct_nontrivial = distinct grammars with at least one input run.", false, 32, 1600,
			[]string{"derivations_validated", "probe_conflict_grammar", "parses_typescript", "probe_parse_of_1000_tokens_or_more", "probe_parse_of_10000_tokens_or_more"}},
		{"C02", "as C01 but only grammars the reference classifies as conflict-free LALR(1); every input the Earley reference accepts must be accepted by every variant.", true, 32, 1600,
			[]string{"sentences_checked", "parses_typescript"}},
		{"C06", "as C01; every input the Earley reference rejects must end in the documented error (Go: panic starting with 'Grammar error'; TypeScript: null + logged grammar error) and, for conflict-free grammars, after requesting exactly (index of the first token no sentence continues with)+1 tokens. Faults: token feed truncated at every position, unknown token codes, replaced/inserted/deleted/swapped tokens.", false, 32, 1600,
			[]string{"non_sentences_checked", "error_positions_checked", "parses_typescript", "probe_parse_of_1000_tokens_or_more", "probe_parse_of_10000_tokens_or_more"}},
		{"C07", "as C01 with random arithmetic / string-building actions over random $i, 1-3 same-typed union fields, token values injected per declared field (other fields poisoned); the returned start value must equal the reference attribute evaluation over the validated derivation.", false, 32, 1600,
			[]string{"values_compared", "probe_deep_tree", "parses_typescript"}},
		{"C08", "as C01; for every input the five variants (go, go -u, go -o, go -o -u, typescript) must agree on verdict, reduction sequence, tokens requested and value; and the lookup of every (state, symbol) through each variant's generated code must equal the table built in the same run; and the uninstrumented CLI called with the variant's flags must write the same bytes as the library entry point with the corresponding mode switches.", false, 32, 1600,
			[]string{"pairs_compared", "matrices_compared", "parses_typescript", "cli_generations_compared"}},
	}
	for _, d := range defs {
		d := d
		Register(&Checker{
			ID: d.id, Level: "exploration", Engine: "B", Rule: d.rule,
			NumCases: func(ctx *Ctx) int { return fixedCases(ctx, d.q, d.t) },
			Gen:      genParsers(d.id, d.cf), Exec: execParsers(d.id),
			Probes: d.probes, Assume: common, Real: real, Stubs: stubs,
			FaultKeys: []string{"outcome_syntax", "outcome_accept", "outcome_other", "outcome_budget", "outcome_nilret"},
		})
	}
}

// tableRecs runs the reference LR driver over the dense table of the same generation and returns the reductions.
func tableRecs(sc *specCtx, f *feedInfo) []ref.RecEvent {
	evs, _ := expectedTrace(sc, f)
	var out []ref.RecEvent
	shifted := 0
	a := sc.Auto
	for i := 0; i < len(evs); i++ {
		ev := evs[i]
		if ev.Kind == "reduce" {
			// identify the rule by its text among the spec's rules, using the goto target: expectedTrace emits rules in order,
			// so recompute the rule index from the table directly
			_ = a
			out = append(out, ref.RecEvent{Rule: ev.Rule, Fetched: shifted + 1})
			i++ // the push of the left-hand side
			continue
		}
		shifted++
	}
	return out
}

// feedStrShort abbreviates very long inputs in messages.
func feedStrShort(s *wl.Spec, toks []ref.Tok) string {
	if len(toks) <= 60 {
		return feedStr(s, toks)
	}
	return feedStr(s, toks[:25]) + fmt.Sprintf(" ... (%d tokens) ... ", len(toks)) + feedStr(s, toks[len(toks)-25:])
}
