package props

import (
	"fmt"
	"regexp"
	"sort"

	"github.com/acekingke/yaccgo/verifsim/enga"
	"github.com/acekingke/yaccgo/verifsim/ref"
	"github.com/acekingke/yaccgo/verifsim/rng"
	"github.com/acekingke/yaccgo/verifsim/wl"
)

const lr1Limit = 6000

func numSched(ctx *Ctx, quick, thorough int) int {
	if ctx.Thorough() {
		return thorough
	}
	return quick
}

func genAutoCase(prec bool, nq, nt int) func(ctx *Ctx, i int) *Input {
	return func(ctx *Ctx, i int) *Input {
		s, kind := grammarCase(ctx, i, prec)
		r := rng.New(ctx.Seed, ctx.Prop, "aux", i)
		in := &Input{Index: i, Spec: s, Variant: wl.Variant{Lang: "go"}, Extra: map[string]any{"kind": kind}}
		if r.Chance(2, 3) {
			in.LayoutSeed = r.Uint64() | 1
		}
		in.Scheds = schedules(ctx, r.Sub("sched"), numSched(ctx, nq, nt))
		return in
	}
}

// buildUnder runs ParseAndBuild for the input under one schedule.
func buildUnder(res *Result, in *Input, sc enga.Schedule, mode string) *enga.Obs {
	o := enga.Run(enga.Case{Text: in.text(wl.EpiNone), Variant: in.Variant, Sched: sc, Mode: mode})
	logObs(res, o)
	return o
}

// ---------------------------------------------------------------- C09

func execC09(ctx *Ctx, in *Input) *Result {
	res := &Result{}
	g := ref.New(in.Spec)
	lr0, ok := g.BuildLR0(1500)
	if !ok {
		res.Count("excluded_too_large", 1)
		return res
	}
	autos := map[string]bool{}
	for si, sc := range in.Scheds {
		o := buildUnder(res, in, sc, "build")
		res.SimTicks += o.Ticks
		res.Count("runs", 1)
		if o.Outcome != enga.OutOK {
			res.Count("skipped_generation_failed(C12)", 1)
			continue
		}
		a := Snapshot(o.L)
		m, err := MapSymbols(g, a)
		if err != nil {
			res.Viol = &Violation{Class: "grammar-misread", Msg: fmt.Sprintf("schedule %d (%s): %v", si, sc, err), Key: "grammar-misread"}
			return res
		}
		fail := func(class, f string, args ...any) *Result {
			res.Viol = &Violation{Class: class, Msg: fmt.Sprintf("schedule %d (%s): ", si, sc) + fmt.Sprintf(f, args...), Key: class}
			return res
		}
		keyOf := make([]string, len(a.States))
		seen := map[string]int{}
		for q, its := range a.States {
			k := itemsKey(its)
			keyOf[q] = k
			if p, dup := seen[k]; dup {
				return fail("duplicate-state", "states %d and %d have the same item set %s", p, q, k)
			}
			seen[k] = q
			if _, ok := lr0.States[k]; !ok {
				return fail("extra-state", "state %d has item set %s, which is not in the canonical collection", q, k)
			}
			// items must be exactly the closure: compare with the reference set (same key => same set as KeyOf sorts)
			if len(its) != len(lr0.States[k]) {
				return fail("bad-closure", "state %d lists %d items, its closure has %d", q, len(its), len(lr0.States[k]))
			}
		}
		if len(a.States) != len(lr0.States) {
			return fail("missing-state", "yaccgo has %d states, the canonical collection has %d", len(a.States), len(lr0.States))
		}
		if keyOf[0] != lr0.Start {
			return fail("start-state", "state 0 is not the closure of the augmented start item")
		}
		for q := range a.States {
			want := lr0.Trans[keyOf[q]]
			if len(a.Goto[q]) != len(want) {
				return fail("transition-count", "state %d has %d transitions, should have %d", q, len(a.Goto[q]), len(want))
			}
			var ysyms []int
			for ysym := range a.Goto[q] {
				ysyms = append(ysyms, ysym)
			}
			sort.Ints(ysyms)
			for _, ysym := range ysyms {
				to := a.Goto[q][ysym]
				rs := m.Y2R[ysym]
				if rs < 0 {
					return fail("transition-symbol", "state %d has a transition on unknown symbol id %d", q, ysym)
				}
				wk, ok := want[rs]
				if !ok {
					return fail("extra-transition", "state %d has a transition on %s that no item allows", q, g.Names[rs])
				}
				if to < 0 || to >= len(keyOf) || keyOf[to] != wk {
					return fail("wrong-target", "state %d on %s leads to state %d, whose item set is not the closure of the advanced items", q, g.Names[rs], to)
				}
			}
		}
		// state numbering signature: distinct automata reached (numbering included)
		sig := ""
		for q := range keyOf {
			sig += keyOf[q] + "|"
		}
		autos[hkey(sig)] = true
		if len(a.States) > 1 {
			res.Count("probe_multi_state", 1)
		}
	}
	merged := false
	// probe: some state reachable by two different paths (merge of equal item sets matters)
	indeg := map[string]int{}
	for _, tr := range lr0.Trans {
		for _, to := range tr {
			indeg[to]++
		}
	}
	for _, d := range indeg {
		if d > 1 {
			merged = true
		}
	}
	if merged {
		res.Count("probe_state_with_two_predecessors", 1)
	}
	for _, nl := range g.Nullable[2:] {
		if nl {
			res.Count("probe_nullable_grammar", 1)
			break
		}
	}
	res.Count("distinct_numberings", len(autos))
	res.Keys = append(res.Keys, hkey(in.Spec.Short()))
	res.Sample = map[string]any{"grammar": in.Spec.Short(), "states": len(lr0.States), "schedules": len(in.Scheds), "numberings": len(autos)}
	return res
}

// ---------------------------------------------------------------- C03

var warnRe = regexp.MustCompile(`(?i)warning[^\n]*confli`)

func execC03(ctx *Ctx, in *Input) *Result {
	res := &Result{}
	g := ref.New(in.Spec)
	la, ok := g.BuildLALR(lr1Limit)
	if !ok {
		res.Count("excluded_lr1_too_large", 1)
		return res
	}
	ci := la.Conflicts(g)
	judgeWarn := !(ci.RRBothPrec || (len(in.Spec.Levels) > 0 && g.PrecAmbiguous()))
	laSets := map[string]bool{}
	for si, sc := range in.Scheds {
		o := buildUnder(res, in, sc, "build")
		res.SimTicks += o.Ticks
		res.Count("runs", 1)
		if o.Outcome != enga.OutOK {
			res.Count("skipped_generation_failed(C12)", 1)
			continue
		}
		a := Snapshot(o.L)
		m, err := MapSymbols(g, a)
		if err != nil {
			res.Viol = &Violation{Class: "grammar-misread", Msg: fmt.Sprintf("schedule %d (%s): %v", si, sc, err), Key: "grammar-misread"}
			return res
		}
		fail := func(class, key, f string, args ...any) *Result {
			res.Viol = &Violation{Class: class, Msg: fmt.Sprintf("schedule %d (%s): ", si, sc) + fmt.Sprintf(f, args...), Key: key}
			return res
		}
		keyOf := make([]string, len(a.States))
		for q, its := range a.States {
			keyOf[q] = itemsKey(its)
			if _, ok := la.LR0.States[keyOf[q]]; !ok {
				res.Count("skipped_lr0_mismatch(C09)", 1)
				return res
			}
		}
		// every final item must have exactly one reduce transition
		got := map[string]map[ref.Item]map[int]bool{}
		for _, t := range a.Trans {
			if !t.IsReduce {
				continue
			}
			if t.Rule < 0 || t.Rule >= len(g.Rules) || t.Q < 0 || t.Q >= len(keyOf) {
				return fail("bad-reduce-transition", "bad-reduce-transition", "reduce transition with state %d rule %d", t.Q, t.Rule)
			}
			k := keyOf[t.Q]
			it := ref.Item{R: t.Rule, D: len(g.Rules[t.Rule].R)}
			if got[k] == nil {
				got[k] = map[ref.Item]map[int]bool{}
			}
			if got[k][it] != nil {
				return fail("duplicate-reduce-transition", "duplicate-reduce-transition", "state %d has two reduce transitions for rule %d", t.Q, t.Rule)
			}
			set := map[int]bool{}
			for _, y := range t.LA {
				if y < 0 || y >= len(m.Y2R) || m.Y2R[y] < 0 {
					return fail("lookahead-not-a-symbol", "lookahead-not-a-symbol", "state %d rule %d: lookahead id %d is no symbol", t.Q, t.Rule, y)
				}
				set[m.Y2R[y]] = true
			}
			got[k][it] = set
		}
		sig := ""
		for _, k := range la.LR0.Order {
			var items []ref.Item
			for it := range la.LA[k] {
				items = append(items, it)
			}
			sort.Slice(items, func(i, j int) bool { return items[i].R < items[j].R })
			for _, it := range items {
				want := la.LA[k][it]
				have, ok := got[k][it]
				if !ok {
					return fail("missing-reduce-transition", "missing-reduce-transition", "no reduction recorded for rule %d (%s) in the state with items %s", it.R, ruleStr(g, it.R), k)
				}
				over, under := false, false
				for x := range have {
					if !want[x] {
						over = true
					}
				}
				for x := range want {
					if !have[x] {
						under = true
					}
				}
				if over || under {
					class := "lookahead-over"
					if under && over {
						class = "lookahead-both"
					} else if under {
						class = "lookahead-under"
					}
					return fail(class, class, "rule %d (%s) in state {%s}: yaccgo has %s, LALR(1) is %s", it.R, ruleStr(g, it.R), k,
						setNames(have, g.Names), setNames(want, g.Names))
				}
				sig += fmt.Sprint(k, it, setNames(want, g.Names))
			}
		}
		laSets[hkey(sig)] = true
		// conflict warnings
		if judgeWarn {
			warned := warnRe.MatchString(o.Stdout)
			if warned && ci.Unresolved == 0 {
				return fail("spurious-warning", "spurious-warning", "conflict warning printed but every LALR(1) conflict (%d cells) is resolved by precedence: %s", ci.Cells, firstLines(warnRe.FindString(o.Stdout), 2))
			}
			if !warned && ci.Unresolved > 0 {
				return fail("missing-warning", "missing-warning", "%d conflict cells lack applicable precedence but no warning was printed", ci.Unresolved)
			}
		} else {
			res.Count("excluded_warning_not_judged", 1)
		}
	}
	// probes
	if ci.Cells == 0 {
		res.Count("probe_conflict_free", 1)
		if !g.IsSLR(la) {
			res.Count("probe_LALR_not_SLR", 1)
		}
	} else {
		res.Count("probe_conflict_grammar", 1)
	}
	if ci.Unresolved > 0 {
		res.Count("probe_warning_due", 1)
	}
	if ci.Cells > 0 && ci.Unresolved == 0 {
		res.Count("probe_all_conflicts_resolved_by_prec", 1)
	}
	for _, nl := range g.Nullable[2:] {
		if nl {
			res.Count("probe_nullable_grammar", 1)
			break
		}
	}
	res.Keys = append(res.Keys, hkey(in.Spec.Short()))
	res.Sample = map[string]any{"grammar": in.Spec.Short(), "lr0_states": len(la.LR0.States), "lr1_states": la.NLR1,
		"conflict_cells": ci.Cells, "schedules": len(in.Scheds)}
	return res
}

func ruleStr(g *ref.Grammar, r int) string {
	if r == 0 {
		return "$accept : " + g.Names[g.Start]
	}
	return g.Spec.RuleString(r - 1)
}

func init() {
	Register(&Checker{
		ID: "C09", Level: "exploration", Engine: "A",
		Rule:     "case = (grammar, layout, K map-order schedules); grammars: 26 textbook separators + renamed/permuted/embedded variants, family FX (all grammars with <=2 nonterminals, <=2 terminals, <=3 rules, rhs<=2; sampled in quick, all in thorough), random CFGs (<=7 nonterminals, <=6 terminals, rhs<=5) kept when the reference finds them usable. distinct_nontrivial = distinct grammars (hash of the abstract rule list, precedence declarations and start symbol) whose automaton was compared under at least one schedule.",
		NumCases: func(ctx *Ctx) int { return autoCases(ctx, 5000, 30000) },
		Gen:      genAutoCase(false, 3, 8),
		Exec:     execC09,
		Probes:   []string{"probe_state_with_two_predecessors", "probe_nullable_grammar", "probe_multi_state"},
		Assume:   []string{"the reference canonical LR(0) construction (set-based, written from the definition) is correct", "simrt.Order yields only iteration orders the Go specification permits"},
	})
	Register(&Checker{
		ID: "C03", Level: "exploration", Engine: "A",
		Rule:     "case = (grammar, layout, K map-order schedules); same grammar families as C09 plus random precedence declarations; oracle: canonical LR(1) collection merged by core. distinct_nontrivial = distinct grammars with at least one reduction whose lookahead set was compared.",
		NumCases: func(ctx *Ctx) int { return autoCases(ctx, 5000, 30000) },
		Gen:      genAutoCase(true, 3, 8),
		Exec:     execC03,
		Probes:   []string{"probe_LALR_not_SLR", "probe_conflict_grammar", "probe_warning_due", "probe_all_conflicts_resolved_by_prec", "probe_nullable_grammar"},
		Assume:   []string{"the reference canonical LR(1) construction + merge by core is correct (it is the definition the property quotes)", "grammars whose canonical LR(1) collection exceeds 6000 states are excluded"},
	})
}
