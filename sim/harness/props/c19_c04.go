package props

import (
	"bytes"
	"fmt"
	"os"
	"os/exec"
	"path/filepath"
	"sort"
	"strings"
	"time"

	"github.com/acekingke/yaccgo/verifsim/enga"
	"github.com/acekingke/yaccgo/verifsim/ref"
	"github.com/acekingke/yaccgo/verifsim/rng"
	"github.com/acekingke/yaccgo/verifsim/wl"
)

// ---------------------------------------------------------------- C19

var c19Kinds = []string{"success", "lexical", "no-section", "syntax-rule", "undefined", "norules", "unproductive", "dollar-range", "dollar-zero", "too-many-states", "unterminated-action", "unterminated-comment", "prologue-not-go"}

// every option set of `generate`, as in C14
var c19Variants = append(append([]wl.Variant(nil), wl.AllVariants...), wl.Variant{Lang: "go", Http: true}, wl.Variant{Lang: "go", Object: true, Http: true})

const sentinel = "SENTINEL: pre-existing output file, must survive a failed generation\n"

func genC19(ctx *Ctx, i int) *Input {
	r := rng.New(ctx.Seed, "C19", i)
	in := &Input{Index: i}
	kind := c19Kinds[i%len(c19Kinds)]
	in.Variant = c19Variants[(i/len(c19Kinds))%len(c19Variants)]
	if kind == "too-many-states" && (i/len(c19Kinds))%12 >= 2 {
		// the 2000-state limit costs seconds per run: once per variant per ~140 cases
		kind = "success"
	}
	base := mixedSpec(ctx, r.Sub("base"))
	if len(base.Fields) == 0 {
		wl.DecorateInt(base, r.Sub("dec"))
	}
	late := r.Chance(1, 2)
	in.Extra = map[string]any{"kind": kind, "late": late}
	in.Spec = base
	if r.Chance(1, 2) {
		in.LayoutSeed = r.Uint64() | 1
	}
	switch kind {
	case "undefined", "norules", "unproductive":
		in.Spec = wl.MakeUnusable(base, kind, r.Sub("inj"))
	case "dollar-range", "dollar-zero":
		s := base.Clone()
		ri := 0
		if late {
			ri = len(s.Rules) - 1
		}
		if s.RawActions == nil {
			s.RawActions = map[int]string{}
		}
		if kind == "dollar-range" {
			s.RawActions[ri] = fmt.Sprintf("$$ = $%d", len(s.Rules[ri].R)+1+r.Intn(3))
		} else {
			s.RawActions[ri] = "$$ = $0"
		}
		in.Spec = s
	case "too-many-states":
		// a dedicated small base: on top of an ambiguous random base the item sets of the chain states grow with the
		// depth and yaccgo's closure computation becomes cubic (minutes) - slow, not a failure kind
		s := wl.MustDSL("top: ID top2 | ID ; top2: ID ID")
		s.Fields = []wl.Field{{Name: "fa", Type: "int"}}
		// a chain of 2100 tiny rules  chainK : t chainK+1  gives more than 2000 LR(0) states with two-item states
		// (cheap to build and to list, unlike one rule with 2000 symbols)
		first := len(s.NTs)
		const n = 2100
		for k := 0; k < n; k++ {
			s.NTs = append(s.NTs, wl.NT{Name: fmt.Sprintf("chain%d", k)})
		}
		var chain []wl.Rule
		for k := 0; k < n; k++ {
			r := wl.Rule{L: first + k, R: []wl.Sym{{I: 0}}, Prec: -1}
			if k+1 < n {
				r.R = append(r.R, wl.Sym{NT: true, I: first + k + 1})
			}
			chain = append(chain, r)
		}
		entry := wl.Rule{L: s.Start, R: []wl.Sym{{I: 0}, {NT: true, I: first}}, Prec: -1}
		if late {
			s.Rules = append(append(s.Rules, entry), chain...)
		} else {
			s.Rules = append(append([]wl.Rule{entry}, chain...), s.Rules...)
		}
		in.Spec = s
		in.LayoutSeed = 0
	}
	in.Scheds = schedules(ctx, r.Sub("sched"), 2)
	if kind == "too-many-states" {
		in.Scheds = in.Scheds[1:]
	}
	in.Sub = r.Uint64()
	return in
}

// c19Text renders the case's text and applies the text-level failure kinds.
func c19Text(in *Input) string {
	text := in.text(wl.EpiMinimal)
	kind := fmt.Sprint(in.Extra["kind"])
	late, _ := in.Extra["late"].(bool)
	r := rng.New(in.Sub, "c19text")
	first := strings.Index(text, "\n%%")
	second := strings.LastIndex(text, "\n%%")
	pick := func(lo, hi int) int {
		if hi <= lo {
			return lo
		}
		return lo + r.Intn(hi-lo)
	}
	switch kind {
	case "lexical":
		// a character no lexer state accepts, in the declarations (early) or in the rules (late)
		at := pick(strings.Index(text, "%}")+3, first)
		if late {
			at = pick(first+4, second)
		}
		// do not land inside an action or comment: move to the start of the line
		for at > 0 && text[at-1] != '\n' {
			at--
		}
		return text[:at] + " ` \n" + text[at:]
	case "no-section":
		return text[:first+1] + text[first+3:]
	case "syntax-rule":
		// a stray ':' where a symbol is expected / rule that starts with '|'
		at := first + 4
		if late {
			at = second + 1
		}
		return text[:at] + " : | ;\n" + text[at:]
	case "unterminated-action":
		at := second + 1
		if !late {
			at = first + 4
		}
		return text[:at] + "zz : { unbalanced \n" + text[at:]
	case "prologue-not-go":
		// the code between %{ and %} is the user's business: yaccgo copies it, whatever it is (here: an import without
		// quotes). Not a failure kind of the unchanged tree - the oracle is the same either way.
		return strings.Replace(text, "import \"fmt\"", "import fmt", 1)
	case "unterminated-comment":
		at := first + 1
		if late {
			at = second + 1
		}
		return text[:at] + "/* never closed \n" + text[at:]
	}
	return text
}

func execC19(ctx *Ctx, in *Input) *Result {
	res := &Result{}
	kind := fmt.Sprint(in.Extra["kind"])
	text := c19Text(in)
	for si, sc := range in.Scheds {
		fail := func(class, f string, a ...any) *Result {
			res.Viol = &Violation{Class: class, Key: class + ":" + kind, Msg: fmt.Sprintf("failure kind %s, variant %s, schedule %d (%s): ", kind, in.Variant, si, sc) + fmt.Sprintf(f, a...)}
			return res
		}
		path := filepath.Join(ctx.Scratch, fmt.Sprintf("c19-%d-%d.out", os.Getpid(), in.Index))
		// a long old file: a successful run must replace it completely, not just overwrite its head
		old := sentinel
		var fresh *enga.Obs
		pre := (in.Index/len(c19Kinds) + in.Index) % 5 // independent of the failure kind (index mod 12) and the variant
		switch pre {
		case 4:
			old = "" // an empty file (mktemp, touch) is a file, too
		case 0:
			old = strings.Repeat(sentinel, 4000)
		case 2, 3:
			// the output of an earlier generation of the same grammar: (2) made when the epilogue still had more code at
			// its end (the new output is a proper prefix of the old file), (3) identical to what this run will write
			fresh = enga.Run(enga.Case{Text: text, Variant: in.Variant, Sched: sc, Mode: "gen"})
			if fresh.Outcome == enga.OutOK && len(fresh.Output) > 0 {
				old = string(fresh.Output)
				if pre == 2 {
					old += "\n// SENTINEL: code that was at the end of the epilogue when this file was generated\nfunc oldMain() {}\n"
				}
				res.Count("preexisting_file_is_earlier_output", 1)
			}
		}
		if err := os.WriteFile(path, []byte(old), 0o644); err != nil {
			res.Harness = err.Error()
			return res
		}
		o := enga.Run(enga.Case{Text: text, Variant: in.Variant, Sched: sc, Mode: "gen", OutPath: path, Budget: 3_000_000_000})
		after, rerr := os.ReadFile(path)
		os.Remove(path)
		logObs(res, o)
		res.SimTicks += o.Ticks
		res.Count("runs", 1)
		touched := ""
		for _, e := range o.FsLog {
			if e.Path == path || e.Path2 == path {
				touched += e.Op + " "
			}
		}
		if o.Outcome == enga.OutHang || o.Outcome == enga.OutDeadlock {
			res.Count("skipped_hang(C13)", 1)
			res.Count(fmt.Sprintf("skipped_hang_case_%d", in.Index), 1)
			continue
		}
		if o.Outcome == enga.OutOK {
			res.Count("successful_runs", 1)
			if kind != "success" {
				res.Count("fault_not_fired_"+kind, 1)
			}
			// complete file: equals what the same case writes to a fresh path, and ends with the epilogue
			if fresh == nil {
				fresh = enga.Run(enga.Case{Text: text, Variant: in.Variant, Sched: sc, Mode: "gen"})
			}
			if rerr != nil || !bytes.Equal(after, fresh.Output) {
				return fail("success-file-differs", "the file written over an existing file differs from the file written to a fresh path (%d vs %d bytes)", len(after), len(fresh.Output))
			}
			epi := text[strings.LastIndex(text, "\n%%")+3:]
			if !strings.HasSuffix(strings.TrimRight(string(after), " \t\n"), strings.TrimRight(epi, " \t\n")) {
				return fail("success-epilogue-missing", "the output file does not end with the user's epilogue")
			}
			if bytes.Contains(after, []byte("SENTINEL")) && !strings.Contains(text, "SENTINEL") {
				return fail("success-not-truncated", "the output file still holds old content")
			}
			continue
		}
		res.Count("failed_runs", 1)
		res.Count("fault_fired_"+kind, 1)
		if rerr != nil {
			return fail("file-removed", "generation failed (%s: %s) and the existing output file is gone; effects on the path: %s", o.Outcome, firstLines(o.Diag, 1), touched)
		}
		if string(after) != old {
			return fail("file-damaged", "generation failed (%s: %s) and the existing output file was changed (%d bytes now); effects on the path: %s", o.Outcome, firstLines(o.Diag, 1), len(after), touched)
		}
		if touched != "" {
			return fail("file-touched", "generation failed (%s: %s); the file's bytes are intact but the run performed [%s] on the output path", o.Outcome, firstLines(o.Diag, 1), touched)
		}
	}
	// the same case through the real command line (yaccgo/command.go is code, too): a third of the cases
	if in.Index%3 == 1 {
		if v := c19CLI(ctx, res, in, text, kind); v != nil {
			return v
		}
	}
	res.Keys = append(res.Keys, hkey(text, in.Variant))
	if in.Index%60 < 12 {
		res.Sample = map[string]any{"kind": kind, "variant": in.Variant.String(), "late": in.Extra["late"], "grammar": firstLines(in.Spec.Short(), 1)[:min(200, len(in.Spec.Short()))]}
	}
	return res
}

// c19CLI runs the uninstrumented CLI on the case with a pre-existing output file (empty, short, or the earlier output
// with more text at its end) and applies the same oracle to the file; there is no fs history on this path.
func c19CLI(ctx *Ctx, res *Result, in *Input, text, kind string) *Result {
	bin := filepath.Join(ctx.Scratch, "yaccgo-real")
	if _, err := os.Stat(bin); err != nil {
		res.Count("cli_binary_missing", 1)
		return nil
	}
	cliCounter++
	dir := filepath.Join(ctx.Scratch, fmt.Sprintf("c19cli-%d-%d", os.Getpid(), cliCounter))
	os.MkdirAll(dir, 0o755)
	defer os.RemoveAll(dir)
	inp := filepath.Join(dir, "in.y")
	os.WriteFile(inp, []byte(text), 0o644)
	args := func(out string) []string {
		a := []string{"generate"}
		if in.Variant.Unpack {
			a = append(a, "-u")
		}
		if in.Variant.Object {
			a = append(a, "-o")
		}
		if in.Variant.Http {
			a = append(a, "-d")
		}
		lang := "go"
		if in.Variant.Lang == "ts" {
			lang = "typescript"
		}
		return append(a, lang, inp, out)
	}
	run := func(out string) error {
		cmd := exec.Command(bin, args(out)...)
		cmd.Dir = dir
		done := make(chan error, 1)
		if err := cmd.Start(); err != nil {
			return err
		}
		go func() { done <- cmd.Wait() }()
		select {
		case err := <-done:
			return err
		case <-time.After(120 * time.Second):
			cmd.Process.Kill()
			<-done
			return fmt.Errorf("timeout")
		}
	}
	fresh := filepath.Join(dir, "fresh.out")
	ferr := run(fresh)
	freshBytes, _ := os.ReadFile(fresh)
	if ferr != nil && ferr.Error() == "timeout" {
		res.Count("cli_skipped_hang(C13)", 1)
		return nil
	}
	olds := []string{"", sentinel}
	if ferr == nil && len(freshBytes) > 0 {
		olds = append(olds, string(freshBytes)+"\n// SENTINEL: code that was at the end of the epilogue when this file was generated\n")
	}
	for oi, old := range olds {
		path := filepath.Join(dir, fmt.Sprintf("out%d", oi))
		if err := os.WriteFile(path, []byte(old), 0o644); err != nil {
			res.Harness = err.Error()
			return res
		}
		if (in.Index/3+oi)%2 == 1 && os.Geteuid() == 0 { // (as an ordinary user a read-only file simply cannot be regenerated)
			os.Chmod(path, 0o444) // generated files are often kept read-only
			res.Count("cli_preexisting_file_read_only", 1)
		}
		err := run(path)
		after, rerr := os.ReadFile(path)
		res.Count("cli_runs", 1)
		fail := func(class, f string, a ...any) *Result {
			res.Viol = &Violation{Class: class, Key: class + ":" + kind + ":cli", Msg: fmt.Sprintf("failure kind %s, variant %s, real CLI (%s), pre-existing file of %d bytes: ", kind, in.Variant, strings.Join(args("OUT")[1:], " "), len(old)) + fmt.Sprintf(f, a...)}
			return res
		}
		if (err == nil) != (ferr == nil) {
			res.Harness = fmt.Sprintf("the real CLI succeeded on one of two identical runs and failed on the other (%v / %v)", ferr, err)
			return res
		}
		if err == nil {
			res.Count("cli_successful_runs", 1)
			if rerr != nil || !bytes.Equal(after, freshBytes) {
				return fail("success-file-differs", "the file written over an existing file differs from the file written to a fresh path (%d vs %d bytes)", len(after), len(freshBytes))
			}
			continue
		}
		res.Count("cli_failed_runs", 1)
		if rerr != nil {
			return fail("file-removed", "generation failed (%v) and the existing output file is gone", err)
		}
		if string(after) != old {
			return fail("file-damaged", "generation failed (%v) and the existing output file was changed (%d bytes now)", err, len(after))
		}
	}
	return nil
}

func min(a, b int) int {
	if a < b {
		return a
	}
	return b
}

// ---------------------------------------------------------------- C04 (a): cell level

func genC04(ctx *Ctx, i int) *Input {
	r := rng.New(ctx.Seed, "C04", i)
	in := &Input{Index: i, Variant: wl.Variant{Lang: "go"}}
	switch {
	case i%3 == 0:
		in.Spec = wl.OperatorTable(r.Sub("ot")).Spec
	case i%3 == 1:
		cl := []string{"prec-expr", "nonassoc", "unary", "ambig-expr", "dangling-else", "rr-conflict"}
		in.Spec = wl.VaryClassic(wl.ClassicByName(cl[(i/3)%len(cl)]), r.Sub("v"))
	default:
		for k := 0; ; k++ {
			s := wl.RandomCFG(r.Sub("cfg", k), wl.CFGParams{MaxNT: 4, MaxT: 5, MaxExtra: 6, MaxRhs: 4, Literals: true, Prec: true})
			if ok, _ := ref.New(s).Usable(); ok {
				in.Spec = s
				break
			}
		}
	}
	in.Spec.NoRec = true
	if r.Chance(1, 2) {
		in.LayoutSeed = r.Uint64() | 1
	}
	in.Scheds = schedules(ctx, r.Sub("sched"), numSched(ctx, 2, 5))
	return in
}

func execC04a(ctx *Ctx, in *Input) *Result {
	res := &Result{}
	g := ref.New(in.Spec)
	if g.PrecAmbiguous() {
		res.Count("excluded_rule_precedence_shape_not_pinned", 1)
		return res
	}
	for si, sc := range in.Scheds {
		o := buildUnder(res, in, sc, "build")
		res.SimTicks += o.Ticks
		res.Count("runs", 1)
		if o.Outcome != enga.OutOK {
			res.Count("skipped_generation_failed(C12)", 1)
			continue
		}
		a := Snapshot(o.L)
		m, err := MapSymbols(g, a)
		if err != nil {
			res.Viol = &Violation{Class: "grammar-misread", Key: "grammar-misread", Msg: err.Error()}
			return res
		}
		// candidate sets from the SAME run (so that a lookahead defect is not re-reported here)
		type cell struct{ q, ysym int }
		cands := map[cell][]ref.Cand{}
		shiftTo := map[cell]int{}
		for _, t := range a.Trans {
			if t.IsReduce {
				for _, y := range t.LA {
					c := cell{t.Q, y}
					cands[c] = append(cands[c], ref.Cand{Kind: ref.ActReduce, Rule: t.Rule, Prec: g.Rules[t.Rule].Prec, Assoc: g.Rules[t.Rule].Assoc})
				}
			} else if !a.IsNT[t.Sym] {
				c := cell{t.Q, t.Sym}
				rs := m.Y2R[t.Sym]
				cands[c] = append(cands[c], ref.Cand{Kind: ref.ActShift, Prec: g.TLevel[rs], Assoc: g.TAssoc[rs]})
				shiftTo[c] = t.To
			}
		}
		var cells []cell
		for c := range cands {
			cells = append(cells, c)
		}
		sort.Slice(cells, func(i, j int) bool {
			return cells[i].q < cells[j].q || cells[i].q == cells[j].q && cells[i].ysym < cells[j].ysym
		})
		for _, c := range cells {
			cs := cands[c]
			if len(cs) == 1 {
				continue
			}
			if len(cs) > 2 {
				res.Count("excluded_multiway_cell", 1)
				// weak oracle: the entry is one of the candidates or the error code
				got := a.GTable[c.q][c.ysym]
				ok := got == a.ErrCode
				for _, x := range cs {
					if x.Kind == ref.ActShift && got == shiftTo[c] {
						ok = true
					}
					if x.Kind == ref.ActReduce && (got == -x.Rule || (x.Rule == 0 && got == a.AccCode)) {
						ok = true
					}
				}
				if !ok {
					res.Viol = &Violation{Class: "multiway-foreign-action", Key: "multiway-foreign-action",
						Msg: fmt.Sprintf("schedule %d: state %d on %s: table entry %d is none of the %d candidates", si, c.q, a.SymName[c.ysym], got, len(cs))}
					return res
				}
				continue
			}
			if cs[0].Kind == ref.ActReduce && cs[1].Kind == ref.ActReduce && cs[0].Prec > 0 && cs[1].Prec > 0 {
				res.Count("excluded_rr_both_with_precedence", 1)
				continue
			}
			w, _ := ref.Resolve2(cs[0], cs[1])
			want := 0
			desc := ""
			switch w.Kind {
			case ref.ActShift:
				want, desc = shiftTo[c], "shift"
			case ref.ActReduce:
				want, desc = -w.Rule, fmt.Sprintf("reduce by rule %d", w.Rule)
				if w.Rule == 0 {
					want = a.AccCode
				}
			case ref.ActError:
				want, desc = a.ErrCode, "error (%nonassoc)"
			}
			got := a.GTable[c.q][c.ysym]
			kind := "sr"
			if cs[0].Kind == ref.ActReduce && cs[1].Kind == ref.ActReduce {
				kind = "rr"
				res.Count("probe_rr_cell", 1)
			} else {
				switch {
				case cs[0].Prec == 0 || cs[1].Prec == 0:
					res.Count("probe_sr_default_shift", 1)
				case cs[0].Prec != cs[1].Prec:
					res.Count("probe_sr_by_level", 1)
				default:
					res.Count(fmt.Sprintf("probe_sr_equal_level_assoc%d", cs[0].Assoc), 1)
				}
			}
			res.Count("cells_judged", 1)
			if got != want {
				res.Viol = &Violation{Class: "wrong-resolution-" + kind, Key: "wrong-resolution-" + kind,
					Msg: fmt.Sprintf("schedule %d (%s): state %d on %s: candidates %s; documented resolution: %s (entry %d); the table has %d (error=%d)",
						si, sc, c.q, a.SymName[c.ysym], candStr(g, cs), desc, want, got, a.ErrCode)}
				return res
			}
		}
	}
	res.Keys = append(res.Keys, hkey(in.Spec.Short()))
	if in.Index%30 == 0 {
		res.Sample = map[string]any{"grammar": in.Spec.Short(), "schedules": len(in.Scheds)}
	}
	return res
}

// ---------------------------------------------------------------- C04 (b): expression level

func genC04b(ctx *Ctx, i int) *Input {
	r := rng.New(ctx.Seed, "C04b", i)
	in := &Input{Index: i, Sub: r.Uint64(), Variants: wl.AllVariants}
	for k := 0; k < 6; k++ {
		in.Specs = append(in.Specs, wl.OperatorTable(r.Sub("ot", k)).Spec)
	}
	if r.Chance(1, 2) {
		in.LayoutSeed = r.Uint64() | 1
	}
	if i%2 == 0 {
		in.Scheds = []enga.Schedule{enga.Canonical()}
	} else {
		in.Scheds = []enga.Schedule{enga.Swarm(r.Uint64(), i/2, ctx.Sites)}
	}
	return in
}

func execC04b(ctx *Ctx, in *Input) *Result {
	res := &Result{}
	pb, ok := prepareBatch(ctx, res, in, wl.AllVariants, wl.EpiFull, feedSizes{})
	defer pb.cleanup()
	if !ok {
		return res
	}
	r := rng.New(in.Sub, "exprs")
	nExpr := 120
	if ctx.Thorough() {
		nExpr = 600
	}
	type expect struct {
		ok     bool
		val    string
		errPos int
	}
	expects := make([][]expect, len(pb.Specs))
	for si, sc := range pb.Specs {
		if sc.Spec.OpTab == nil {
			continue
		}
		pr := ref.NewPrecRef(sc.Spec)
		seen := map[string]bool{}
		for k := 0; k < nExpr; k++ {
			toks := pr.RandomExpr(r.Sub(si, k), 1+r.Intn(5))
			if len(toks) > 60 {
				continue
			}
			f := feedInfo{Kind: "expression", Toks: toks, PanicAt: -1}
			if seen[f.String()] {
				continue
			}
			seen[f.String()] = true
			s, ok, ep := pr.Parse(toks)
			// cross-check of two references: whatever the precedence reference groups is a sentence of the (ambiguous) grammar
			rt := make([]int, len(toks))
			for i, t := range toks {
				rt[i] = sc.G.T(t.Term)
			}
			if sent, _ := sc.G.Recognise(rt); !sent {
				res.Harness = fmt.Sprintf("references disagree: the expression generator produced [%s], which the Earley recogniser rejects for [%s]", feedStr(sc.Spec, toks), sc.Spec.Short())
				return res
			}
			sc.Feeds = append(sc.Feeds, f)
			expects[si] = append(expects[si], expect{ok, s, ep})
		}
	}
	results, _, ok := pb.runParses(ctx, res, false)
	if !ok {
		return res
	}
	for si, sc := range pb.Specs {
		for _, u := range sc.sortedUnits() {
			if u.GenErr != "" || u.CompErr != "" {
				res.Count("skipped_unit_unusable(C12/C16)", 1)
				continue
			}
			prs := results[u.Name]
			for fi := range sc.Feeds {
				if fi >= len(prs) {
					break
				}
				pr, ex := &prs[fi], expects[si][fi]
				fail := func(class, f string, a ...any) *Result {
					res.Viol = &Violation{Class: class, Key: class, Sub: si,
						Msg: fmt.Sprintf("operator table [%s], variant %s, expression [%s]: ", sc.Spec.Short(), u.Variant, feedStr(sc.Spec, sc.Feeds[fi].Toks)) + fmt.Sprintf(f, a...)}
					return res
				}
				res.Count("expressions_checked", 1)
				if ex.ok {
					if pr.Outcome != "accept" {
						return fail("expression-rejected", "the declarations group it as %s, but the parser ended with %s %s", ex.val, pr.Outcome, pr.Msg)
					}
					got := fmt.Sprint(valueOf(pr.Value, u, sc.Spec))
					if got != ex.val {
						return fail("wrong-grouping", "the declarations group it as %s, the parser built %s", ex.val, got)
					}
					res.Count("groupings_compared", 1)
				} else {
					res.Count("probe_nonassoc_error_expected", 1)
					if pr.Outcome != "syntax" {
						return fail("nonassoc-not-an-error", "a %%nonassoc operator is chained at token #%d, which must be a syntax error; the parser ended with %s %v", ex.errPos, pr.Outcome, valueOf(pr.Value, u, sc.Spec))
					}
					if pr.Fetched != ex.errPos+1 {
						return fail("nonassoc-error-position", "the syntax error must be reported at token #%d (after requesting %d tokens); the parser requested %d", ex.errPos, ex.errPos+1, pr.Fetched)
					}
				}
			}
		}
		if len(sc.Feeds) > 0 {
			res.Keys = append(res.Keys, hkey(sc.Spec.Short()))
		}
	}
	if len(pb.Specs) > 0 && len(pb.Specs[0].Feeds) > 0 {
		sc := pb.Specs[0]
		res.Sample = map[string]any{"operator_table": sc.Spec.Short(), "expressions": len(sc.Feeds), "example": feedStr(sc.Spec, sc.Feeds[0].Toks), "reference_grouping": expects[0][0].val}
	}
	return res
}

func candStr(g *ref.Grammar, cs []ref.Cand) string {
	var p []string
	for _, c := range cs {
		if c.Kind == ref.ActShift {
			p = append(p, fmt.Sprintf("shift(prec %d, assoc %d)", c.Prec, c.Assoc))
		} else {
			p = append(p, fmt.Sprintf("reduce %d [%s](prec %d, assoc %d)", c.Rule, ruleStr(g, c.Rule), c.Prec, c.Assoc))
		}
	}
	return strings.Join(p, " vs ")
}

func init() {
	Register(&Checker{
		ID: "C19", Level: "fault_enumeration", Engine: "A",
		Rule:     "fault = the pipeline stage at which the input makes generation fail, enumerated from the code: lexical error, missing %%, syntax error in the rules, unterminated action / comment, undefined symbol, %type'd nonterminal without rules, unproductive nonterminal, $n beyond the rule, $0, >= 2000 states; each placed early or late in the file, x 5 output variants x 2 map-order schedules, with a pre-existing output file holding sentinel bytes; plus successful runs. Oracle: bytes of the file + the recorded history of file-system effects on the path. distinct_nontrivial = distinct (text, variant) pairs.",
		NumCases: func(ctx *Ctx) int { return fixedCases(ctx, 720, 12000) },
		Gen:      genC19, Exec: execC19,
		FaultKeys: []string{"fault_fired_lexical", "fault_fired_no-section", "fault_fired_syntax-rule", "fault_fired_undefined", "fault_fired_norules", "fault_fired_unproductive",
			"fault_fired_dollar-range", "fault_fired_dollar-zero", "fault_fired_too-many-states", "fault_fired_unterminated-action", "fault_fired_unterminated-comment"},
		Probes: []string{"successful_runs", "failed_runs", "fault_fired_dollar-range", "fault_fired_too-many-states", "fault_fired_lexical", "fault_fired_undefined"},
		Assume: []string{"disk faults (ENOSPC, short writes) and kill -9 are outside the statement and not injected", "file-system effects of yaccgo go through os.Create/OpenFile/WriteFile/Remove/Rename/Truncate (all behind the seam); the final byte comparison also sees effects that bypass it"},
	})
	c04batches := func(ctx *Ctx) int { return fixedCases(ctx, 16, 400) }
	Register(&Checker{
		ID: "C04", Level: "exploration", Engine: "A+B",
		Rule:     "two kinds of cases. (a) cell level: (grammar with precedence, K map-order schedules); operator tables (1-6 levels, random associativity, prefix operators via %prec), textbook conflict grammars, random CFGs with random %left/%right/%nonassoc and %prec; for every table cell with exactly two candidate actions (taken from the same run's transitions and lookaheads) the dense-table entry is compared with the documented resolution. (b) expression level: batches of 6 operator tables compiled in all 5 variants; random expressions (depth <= 5) are parsed and the returned fully parenthesised string / the syntax error and its position are compared with a precedence-climbing reference that only knows the declarations. distinct_nontrivial = distinct grammars.",
		NumCases: func(ctx *Ctx) int { return c04batches(ctx) + fixedCases(ctx, 6000, 60000) },
		Gen: func(ctx *Ctx, i int) *Input {
			if isB, k := mixCases(c04batches(ctx), fixedCases(ctx, 6000, 60000), i); isB {
				in := genC04b(ctx, k)
				in.Index = i
				return in
			} else {
				in := genC04(ctx, k)
				in.Index = i
				return in
			}
		},
		Exec: func(ctx *Ctx, in *Input) *Result {
			if len(in.Specs) > 0 {
				return execC04b(ctx, in)
			}
			return execC04a(ctx, in)
		},
		Probes: []string{"probe_sr_by_level", "probe_sr_equal_level_assoc0", "probe_sr_equal_level_assoc1", "probe_sr_equal_level_assoc2", "probe_sr_default_shift", "probe_rr_cell", "groupings_compared", "probe_nonassoc_error_expected"},
		Assume: []string{"rule precedence = %prec symbol, else the last right-hand-side terminal; grammars where an earlier terminal has precedence and the last one has none are excluded (yacc and yaccgo differ, the statement does not pin it)", "multi-way cells (>= 3 candidates) and reduce/reduce between two rules that both carry precedence are not judged beyond 'the entry is one of the candidates or error'", "the precedence-climbing reference implements the yacc rules for binary, prefix (%prec) and parenthesised expressions"},
		Real:   []string{"yaccgo generator (instrumented copy)", "go build / node", "generated parsers of all five variants"},
		Stubs:  []string{"map-iteration order shim", "token source", "TypeScript type eraser"},
	})
}
