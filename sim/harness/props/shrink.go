package props

import (
	"github.com/acekingke/yaccgo/verifsim/enga"
	"github.com/acekingke/yaccgo/verifsim/wl"
	"strings"
)

// genericShrink proposes simpler inputs, simplest first, in the fixed order of DESIGN 4.1:
// fault plan, schedule (fewer schedules, canonical, single site), batch (one grammar, one variant),
// layout (canonical), grammar (fewer rules, shorter rules, fewer declarations).
func genericShrink(ctx *Ctx, in *Input, v *Violation) []*Input {
	var out []*Input
	clone := func() *Input {
		c := *in
		c.Scheds = append([]enga.Schedule(nil), in.Scheds...)
		c.Specs = append([]*wl.Spec(nil), in.Specs...)
		c.Variants = append([]wl.Variant(nil), in.Variants...)
		if in.Corrupt != nil {
			cc := *in.Corrupt
			c.Corrupt = &cc
		}
		if in.Extra != nil {
			c.Extra = map[string]any{}
			for k, x := range in.Extra {
				c.Extra[k] = x
			}
		}
		return &c
	}
	// ---- batch: the grammar named by the violation, then each grammar alone
	if len(in.Specs) > 1 {
		if v.Sub >= 0 && v.Sub < len(in.Specs) {
			c := clone()
			c.Specs = []*wl.Spec{in.Specs[v.Sub]}
			out = append(out, c)
		}
		for i := range in.Specs {
			c := clone()
			c.Specs = []*wl.Spec{in.Specs[i]}
			out = append(out, c)
		}
		return out // first get down to one grammar
	}
	// ---- schedules
	if len(in.Scheds) > 1 {
		for i := range in.Scheds {
			c := clone()
			c.Scheds = []enga.Schedule{in.Scheds[i]}
			out = append(out, c)
		}
		if len(in.Scheds) > 2 {
			for i := 1; i < len(in.Scheds); i++ {
				c := clone()
				c.Scheds = []enga.Schedule{in.Scheds[0], in.Scheds[i]}
				out = append(out, c)
			}
		}
	}
	for i, sc := range in.Scheds {
		if sc.Default == "asc" && len(sc.Sites) == 0 {
			continue
		}
		// canonical
		c := clone()
		c.Scheds[i] = enga.Canonical()
		out = append(out, c)
		// canonical everywhere except ONE site, which keeps its policy (names the site that matters)
		pol := func(site string) string {
			if p, ok := sc.Sites[site]; ok {
				return p
			}
			return sc.Default
		}
		nonAsc := 0
		for _, site := range ctx.Sites {
			if pol(site) != "asc" {
				nonAsc++
			}
		}
		if nonAsc > 1 {
			for _, site := range ctx.Sites {
				if pol(site) == "asc" {
					continue
				}
				c := clone()
				c.Scheds[i] = enga.Schedule{Seed: sc.Seed, Default: "asc", Sites: map[string]string{site: pol(site)}}
				out = append(out, c)
			}
			// drop one site at a time back to asc
			for _, site := range ctx.Sites {
				if pol(site) == "asc" {
					continue
				}
				c := clone()
				ns := enga.Schedule{Seed: sc.Seed, Default: "asc", Sites: map[string]string{}}
				for _, s2 := range ctx.Sites {
					if s2 != site && pol(s2) != "asc" {
						ns.Sites[s2] = pol(s2)
					}
				}
				c.Scheds[i] = ns
				out = append(out, c)
			}
		}
		// a simpler policy than a shuffle
		if nonAsc == 1 {
			for _, site := range ctx.Sites {
				if p := pol(site); p == "shuffle" {
					for _, simple := range []string{"desc", "rot:1"} {
						c := clone()
						c.Scheds[i] = enga.Schedule{Seed: sc.Seed, Default: "asc", Sites: map[string]string{site: simple}}
						out = append(out, c)
					}
				}
			}
		}
	}
	// ---- variants
	if len(in.Variants) > 1 {
		for i := range in.Variants {
			c := clone()
			c.Variants = []wl.Variant{in.Variants[i]}
			out = append(out, c)
		}
		if len(in.Variants) > 2 {
			for i := 0; i < len(in.Variants); i++ {
				for j := i + 1; j < len(in.Variants); j++ {
					c := clone()
					c.Variants = []wl.Variant{in.Variants[i], in.Variants[j]}
					out = append(out, c)
				}
			}
		}
	}
	// ---- layout
	if in.LayoutSeed != 0 {
		c := clone()
		c.LayoutSeed = 0
		out = append(out, c)
	}
	// ---- grammar
	if in.Spec != nil && in.Text == "" {
		for _, s := range in.Spec.Simpler() {
			if len(s.Rules) == 0 || len(s.NTs) == 0 {
				continue
			}
			c := clone()
			c.Spec = s
			out = append(out, c)
		}
	}
	if len(in.Specs) == 1 {
		for _, s := range in.Specs[0].Simpler() {
			if len(s.Rules) == 0 || len(s.NTs) == 0 {
				continue
			}
			c := clone()
			c.Specs = []*wl.Spec{s}
			out = append(out, c)
		}
	}
	return out
}

// shrinkC13 makes the replay self-contained (explicit base text) and tries earlier / simpler damage.
func shrinkC13(ctx *Ctx, in *Input, v *Violation) []*Input {
	var out []*Input
	if v.Class == "hang" && v.Sub == 1 && in.Corrupt != nil {
		// the undamaged base does not finish: the base is the failing text, judged as it stands
		text := in.Text
		if text == "" {
			bases := c13Bases(ctx)
			if bi := toInt(in.Extra["base_index"]); bi < len(bases) {
				text = bases[bi].Text
			}
		}
		if text != "" {
			c := *in
			c.Text, c.Corrupt, c.Mode, c.Variant = text, nil, "gen", wl.Variant{Lang: "go"}
			return []*Input{&c}
		}
	}
	if in.Text == "" && in.Corrupt != nil {
		bases := c13Bases(ctx)
		bi := toInt(in.Extra["base_index"])
		if bi < len(bases) {
			c := *in
			c.Text = bases[bi].Text
			out = append(out, &c)
			return out
		}
	}
	if in.Corrupt != nil && in.Text != "" {
		// apply the damage, then keep the damaged text as the (now fault-free looking) base and try cutting it down
		damaged := in.Corrupt.Apply(in.Text)
		if in.Corrupt.Kind != "truncate" {
			// does a plain truncation right after the damage do?
			for _, cut := range []int{in.Corrupt.At + 1, in.Corrupt.At + 2, in.Corrupt.At + 17} {
				if cut < len(damaged) {
					c := *in
					c.Text = damaged
					c.Corrupt = &Corruption{Kind: "truncate", At: cut}
					out = append(out, &c)
				}
			}
		}
		// drop whole lines before the point of damage
		lines := splitKeep(damaged)
		pos := 0
		for li := 0; li < len(lines) && len(out) < 200; li++ {
			if pos+len(lines[li]) <= in.Corrupt.At && in.Corrupt.Kind == "truncate" {
				c := *in
				c.Text = in.Text[:pos] + in.Text[pos+len(lines[li]):]
				cc := *in.Corrupt
				cc.At -= len(lines[li])
				c.Corrupt = &cc
				out = append(out, &c)
			}
			pos += len(lines[li])
		}
	}
	if v.Class == "hang" && in.Corrupt != nil && in.Text != "" {
		// the text as judged, without a fault plan: from here on whole chunks of lines can go
		c := *in
		c.Text = in.Corrupt.Apply(in.Text)
		c.Corrupt = nil
		out = append(out, &c)
	}
	if v.Class == "hang" && in.Corrupt == nil && in.Text != "" {
		lines := splitKeep(in.Text)
		for chunk := len(lines) / 2; chunk >= 1 && len(out) < 120; chunk /= 2 {
			for at := 0; at < len(lines) && len(out) < 120; at += chunk {
				end := at + chunk
				if end > len(lines) {
					end = len(lines)
				}
				c := *in
				c.Text = strings.Join(lines[:at], "") + strings.Join(lines[end:], "")
				if c.Text != "" {
					out = append(out, &c)
				}
			}
		}
	}
	if len(in.Scheds) == 1 && in.Scheds[0].Default != "asc" {
		c := *in
		c.Scheds = []enga.Schedule{enga.Canonical()}
		out = append(out, &c)
	}
	return out
}

func splitKeep(s string) []string {
	var out []string
	start := 0
	for i := 0; i < len(s); i++ {
		if s[i] == '\n' {
			out = append(out, s[start:i+1])
			start = i + 1
		}
	}
	if start < len(s) {
		out = append(out, s[start:])
	}
	return out
}

// InstallShrinkers gives every checker without its own shrinker the generic one (called by main before use).
func InstallShrinkers() {
	for id, ch := range Registry {
		if ch.Shrink == nil {
			if id == "C13" {
				ch.Shrink = shrinkC13
			} else {
				ch.Shrink = genericShrink
			}
		}
	}
}
