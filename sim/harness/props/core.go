// Package props: one checker per property. A checker is a pair
//
//	Gen(ctx, i)  -> Input   deterministic in (seed, i): the case, explicitly
//	Exec(ctx, in) -> Result runs the case against the real code and judges it
//
// The coordinator fans cases out to worker processes, merges counters, writes
// evidence, shrinks violations and writes replay files. A replay file holds
// the explicit Input, so replaying does not involve the PRNG.
package props

import (
	"encoding/json"
	"fmt"
	"sort"

	"github.com/acekingke/yaccgo/verifsim/enga"
	"github.com/acekingke/yaccgo/verifsim/ref"
	"github.com/acekingke/yaccgo/verifsim/wl"
)

type Ctx struct {
	Prop     string
	Tier     string
	Seed     uint64
	Sites    []string // map-range sites of the instrumented tree (seam audit)
	Scratch  string   // scratch directory of this run
	RepoCopy string   // instrumented module root
	Known    []KnownFinding
}

func (c *Ctx) Thorough() bool { return c.Tier == "thorough" }

// Input is the explicit, serialisable description of one case.
type Input struct {
	Index      int             `json:"index"`
	Spec       *wl.Spec        `json:"spec,omitempty"`
	Specs      []*wl.Spec      `json:"specs,omitempty"`
	LayoutSeed uint64          `json:"layout_seed,omitempty"` // 0 = canonical layout
	Variant    wl.Variant      `json:"variant"`
	Variants   []wl.Variant    `json:"variants,omitempty"`
	Scheds     []enga.Schedule `json:"scheds,omitempty"`
	Text       string          `json:"text,omitempty"` // explicit grammar text (overrides rendering)
	Base       string          `json:"base,omitempty"` // name of the base text for corruption cases
	Corrupt    *Corruption     `json:"corrupt,omitempty"`
	Mode       string          `json:"mode,omitempty"`
	Inputs     [][]ref.Tok     `json:"inputs,omitempty"`
	Sub        uint64          `json:"sub,omitempty"` // seed for case-internal draws (token strings ...)
	Extra      map[string]any  `json:"extra,omitempty"`
}

// Corruption is a fault plan for the grammar file.
type Corruption struct {
	Kind string `json:"kind"`          // truncate | flip | insert | delete | dupsector | dropsector | swapsector
	At   int    `json:"at"`            // byte offset
	Arg  int    `json:"arg,omitempty"` // replacement byte / second offset
	N    int    `json:"n,omitempty"`   // sector size
}

type Violation struct {
	Class string `json:"class"` // stable violation class, used by the shrinker to keep "the same failure"
	Msg   string `json:"msg"`
	Key   string `json:"key,omitempty"` // finding key (what fails), for the known-findings file
	// NotReplayable: found under real (uncontrolled) concurrency; the replay re-runs the same workload but the Go
	// scheduler decides whether the violation shows again
	NotReplayable bool `json:"not_exactly_replayable,omitempty"`
	// Sub narrows the case to the failing part (e.g. index of the grammar within a batch)
	Sub int `json:"sub,omitempty"`
}

type Result struct {
	Viol     *Violation     `json:"viol,omitempty"`
	Counters map[string]int `json:"counters,omitempty"`
	Keys     []string       `json:"keys,omitempty"`   // keys of distinct non-trivial things explored in this case
	Scheds   []string       `json:"scheds,omitempty"` // hashes of the map-order decision logs of the runs of this case
	Sample   any            `json:"sample,omitempty"`
	SimTicks int64          `json:"ticks,omitempty"`
	LogHash  string         `json:"log_hash,omitempty"` // hash of the event log of this case (determinism self-test)
	Harness  string         `json:"harness,omitempty"`  // non-empty: harness trouble (exit 2), never a violation
}

func (r *Result) Count(k string, n int) {
	if r.Counters == nil {
		r.Counters = map[string]int{}
	}
	r.Counters[k] += n
}

type Checker struct {
	ID       string
	Level    string // exploration | fault_enumeration
	Engine   string // A | B
	Rule     string // how cases are generated and what makes one non-trivial/distinct
	Assume   []string
	Real     []string // components that ran real code
	Stubs    []string
	NumCases func(ctx *Ctx) int
	Gen      func(ctx *Ctx, i int) *Input
	Exec     func(ctx *Ctx, in *Input) *Result
	Shrink   func(ctx *Ctx, in *Input, v *Violation) []*Input // candidate simplifications, simplest first
	// ProcessStateIsEvidence: a violation that shows in a worker (which has run other cases before) but not when the same
	// case is replayed in a fresh process is itself what the property forbids (C14: "in the same or in different
	// processes"): state carried from one generation to the next. It is then reported, flagged not exactly replayable.
	ProcessStateIsEvidence bool
	Probes                 []string // counters that must be non-zero (rare-condition probes); zero => warning
	FaultKeys              []string // counters that are fault kinds
}

var Registry = map[string]*Checker{}

func Register(c *Checker) { Registry[c.ID] = c }

func IDs() []string {
	var ids []string
	for k := range Registry {
		ids = append(ids, k)
	}
	sort.Strings(ids)
	return ids
}

// KnownFinding is one line of /verif/known_findings.jsonl.
type KnownFinding struct {
	Status   string `json:"status"` // "open" | "fixed"
	Property string `json:"property"`
	Key      string `json:"key"`
	What     string `json:"what"`
	Commit   string `json:"commit,omitempty"`
}

// IsKnown reports whether v matches an open finding.
func (c *Ctx) IsKnown(prop string, v *Violation) *KnownFinding {
	for i := range c.Known {
		k := &c.Known[i]
		if k.Status == "open" && k.Property == prop && k.Key != "" && k.Key == v.Key {
			return k
		}
	}
	return nil
}

func jsonStr(v any) string {
	b, _ := json.Marshal(v)
	return string(b)
}

func hash64(s string) uint64 {
	h := uint64(14695981039346656037)
	for i := 0; i < len(s); i++ {
		h ^= uint64(s[i])
		h *= 1099511628211
	}
	return h
}

func hkey(parts ...any) string {
	return fmt.Sprintf("%016x", hash64(fmt.Sprint(parts...)))
}

// mixCases spreads nb "batch" cases evenly among na ordinary cases, so that a wall-clock budget cuts both kinds
// proportionally. It maps case index i to (isBatch, index within its kind).
func mixCases(nb, na, i int) (bool, int) {
	if nb <= 0 {
		return false, i
	}
	total := nb + na
	stride := total / nb
	if stride < 1 {
		stride = 1
	}
	if i%stride == 0 && i/stride < nb {
		return true, i / stride
	}
	// number of batch slots at positions <= i
	b := i/stride + 1
	if b > nb {
		b = nb
	}
	return false, i - b
}
