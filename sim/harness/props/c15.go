package props

import (
	"fmt"
	"os"
	"regexp"
	"strconv"
	"strings"
	"time"

	"github.com/acekingke/yaccgo/verifsim/engb"
	"github.com/acekingke/yaccgo/verifsim/engbrt"
	"github.com/acekingke/yaccgo/verifsim/rng"
	"github.com/acekingke/yaccgo/verifsim/wl"
)

// C15: parses are independent: re-init and separate contexts do not interfere.

func execC15(ctx *Ctx, in *Input) *Result {
	res := &Result{}
	sz := feedSizes{Sentences: 16, MaxLen: 30, Exhaustive: 40, Mutants: 30, Prefixes: 2, NoVeryLong: true}
	nHist, histLen, nInter := 4, 8, 6
	if ctx.Thorough() {
		sz = feedSizes{Sentences: 40, MaxLen: 40, Exhaustive: 120, Mutants: 80, Prefixes: 4, NoVeryLong: true}
		nHist, histLen, nInter = 20, 14, 40
	}
	pb, ok := prepareBatch(ctx, res, in, wl.AllVariants, wl.EpiFullBoot, sz)
	defer pb.cleanup()
	if !ok {
		return res
	}
	r := rng.New(in.Sub, "c15")
	// aborted parses: the user's lexer fails at token i
	for si, sc := range pb.Specs {
		rr := r.Sub("abort", si)
		n := len(sc.Feeds)
		for k := 0; k < n && k < 12; k++ {
			f := sc.Feeds[rr.Intn(n)]
			if len(f.Toks) == 0 {
				continue
			}
			f.PanicAt = rr.Intn(len(f.Toks) + 1)
			f.Kind = "lexer-fails"
			sc.Feeds = append(sc.Feeds, f)
		}
	}
	solo, _, ok := pb.runParsesB(ctx, res, true, 3000)
	if !ok {
		return res
	}
	// nestPlan mirrors engbrt.Nest: which feed runs nested (and what nests inside that)
	type nestPlan struct {
		Fi    int
		Inner *nestPlan
	}
	type plan struct {
		sc    *specCtx
		u     *genUnit
		feeds [][]int           // per parse op: feed index (history: one list; interleave: per context)
		nests map[int]*nestPlan // history: parse op index -> the nested parse planned inside it
	}
	var goJobs, tsJobs []engbrt.Job
	var goPlans, tsPlans []plan
	for si, sc := range pb.Specs {
		if len(sc.Feeds) == 0 {
			continue
		}
		rr := r.Sub("plans", si)
		// interesting feeds: long aborted / rejected ones followed by short ones expose stale slots
		pick := func(q *rng.R) int { return q.Intn(len(sc.Feeds)) }
		for _, u := range sc.sortedUnits() {
			if u.GenErr != "" || u.CompErr != "" {
				continue
			}
			for h := 0; h < nHist; h++ {
				q := rr.Sub(u.Variant.String(), "hist", h)
				var ops []engbrt.Op
				var idx []int
				nests := map[int]*nestPlan{}
				hl := histLen
				if h == 0 {
					hl = 120 // one long history per parser: state carried across many operations
				}
				// (d) the global form re-entered from an action (PushContex / ParserInit / Parser / PopContex): a third of
				// the parses of every second history suspend at a seeded reduction and run another parse to the end, which
				// may itself suspend once more. Needs actions that call the environment (not the shared-action specs).
				nesting := u.Variant.Lang == "go" && !u.Variant.Object && !sc.Spec.NoRec && h%2 == 1
				mkNest := func(outerFi int, depth int) (*engbrt.Nest, *nestPlan) { return nil, nil }
				mkNest = func(outerFi int, depth int) (*engbrt.Nest, *nestPlan) {
					nr := len(solo[u.Name][outerFi].Recs)
					if nr == 0 {
						return nil, nil
					}
					ifi := pick(q)
					fd := sc.Feeds[ifi].feed()
					n := &engbrt.Nest{At: q.Intn(nr), Feed: &fd}
					np := &nestPlan{Fi: ifi}
					if depth < 2 && q.Chance(1, 3) {
						n.Inner, np.Inner = mkNest(ifi, depth+1)
					}
					return n, np
				}
				for k := 0; k < hl; k++ {
					fi := pick(q)
					// re-initialise before every parse (that is the contract); in object mode sometimes a fresh context
					if u.Variant.Object && q.Chance(1, 4) {
						ops = append(ops, engbrt.Op{Op: "new"})
					} else {
						ops = append(ops, engbrt.Op{Op: "init"})
					}
					fd := sc.Feeds[fi].feed()
					op := engbrt.Op{Op: "parse", Feed: &fd}
					if nesting && q.Chance(1, 3) {
						if n, np := mkNest(fi, 1); n != nil {
							op.Nest = n
							nests[len(idx)] = np
						}
					}
					ops = append(ops, op)
					idx = append(idx, fi)
				}
				j := engbrt.Job{Parser: u.Name, Kind: "history", Ops: ops, Budget: 3000}
				if u.Variant.Lang == "go" {
					goJobs = append(goJobs, j)
					goPlans = append(goPlans, plan{sc, u, [][]int{idx}, nests})
				} else {
					tsJobs = append(tsJobs, j)
					tsPlans = append(tsPlans, plan{sc, u, [][]int{idx}, nil})
				}
			}
			if u.Variant.Object && u.Variant.Lang == "go" {
				for h := 0; h < nInter; h++ {
					q := rr.Sub(u.Variant.String(), "inter", h)
					nc := q.Range(2, 4)
					var ctxs [][]engbrt.Op
					var idxs [][]int
					for c := 0; c < nc; c++ {
						var ops []engbrt.Op
						var idx []int
						np := q.Range(1, 4)
						for k := 0; k < np; k++ {
							fi := pick(q)
							if k > 0 {
								if q.Chance(1, 3) {
									ops = append(ops, engbrt.Op{Op: "new"})
								} else {
									ops = append(ops, engbrt.Op{Op: "init"})
								}
							}
							fd := sc.Feeds[fi].feed()
							ops = append(ops, engbrt.Op{Op: "parse", Feed: &fd})
							idx = append(idx, fi)
						}
						ctxs = append(ctxs, ops)
						idxs = append(idxs, idx)
					}
					pol := []string{"uniform", "bursts", "after-reduce"}[q.Intn(3)]
					goJobs = append(goJobs, engbrt.Job{Parser: u.Name, Kind: "interleave", Ctxs: ctxs, Seed: q.Uint64(), Policy: pol, Trace: h%2 == 0, Budget: 3000})
					goPlans = append(goPlans, plan{sc, u, idxs, nil})
				}
			}
		}
	}
	// (e) a parse during package initialisation and (f) a long-lived parser re-initialised very many times
	soakN := 1_200_000
	for si, sc := range pb.Specs {
		if len(sc.Feeds) == 0 {
			continue
		}
		for _, u := range sc.sortedUnits() {
			if u.GenErr != "" || u.CompErr != "" || u.Variant.Lang != "go" {
				continue
			}
			goJobs = append(goJobs, engbrt.Job{Parser: u.Name, Kind: "boot", Budget: 3000})
			goPlans = append(goPlans, plan{sc: sc, u: u})
			if si == (in.Index/2)%len(pb.Specs) && u.Variant.Unpack == (in.Index%2 == 0) && (ctx.Thorough() || in.Index%8 < 2) {
				// one short input, the way a server parses small requests for days
				best := -1
				for fi := range sc.Feeds {
					if n := len(sc.Feeds[fi].Toks); n >= 1 && n <= 4 && sc.Feeds[fi].PanicAt < 0 && (best < 0 || sc.Feeds[fi].Sentence) {
						best = fi
						if sc.Feeds[fi].Sentence {
							break
						}
					}
				}
				if best >= 0 {
					fd := sc.Feeds[best].feed()
					goJobs = append(goJobs, engbrt.Job{Parser: u.Name, Kind: "soak", Feeds: []engbrt.Feed{fd}, N: soakN, Budget: 3000})
					goPlans = append(goPlans, plan{sc: sc, u: u, feeds: [][]int{{best}}})
				}
				// the global form: 15 000 nested parses that fail and are never popped (the action does not recover, the
				// caller re-initialises), with a nested parse that succeeds now and then
				if !u.Variant.Object && !sc.Spec.NoRec {
					outer, bad, good := -1, -1, -1
					for fi := range sc.Feeds {
						f := &sc.Feeds[fi]
						so := &solo[u.Name][fi]
						if f.PanicAt >= 0 || len(f.Toks) > 12 {
							continue
						}
						if so.Outcome == "accept" && len(so.Recs) > 0 {
							if outer < 0 {
								outer = fi
							}
							good = fi
						}
						if so.Outcome == "syntax" && bad < 0 {
							bad = fi
						}
					}
					if outer >= 0 && bad >= 0 && good >= 0 {
						goJobs = append(goJobs, engbrt.Job{Parser: u.Name, Kind: "soak-nested", N: 15000, Budget: 3000,
							Feeds: []engbrt.Feed{sc.Feeds[outer].feed(), sc.Feeds[bad].feed(), sc.Feeds[good].feed()}})
						goPlans = append(goPlans, plan{sc: sc, u: u, feeds: [][]int{{outer, bad, good}}})
					}
				}
			}
		}
	}
	judge := func(jr *engbrt.JobResult, pl plan) *Result {
		if jr.Kind == "boot" {
			res.Count("parses_during_package_initialisation", 1)
			if jr.Err != "" || len(jr.Parses) != 1 {
				res.Harness = "engine B boot job: " + jr.Err
				return res
			}
			now := jr.Parses[0].Outcome
			then := "other"
			switch {
			case jr.Boot == "accept":
				then = "accept"
			case jr.Boot == "nil":
				then = "nilret"
			case strings.HasPrefix(jr.Boot, "panic: Grammar error"):
				then = "syntax"
			}
			if jr.Boot == "skipped" || strings.HasPrefix(jr.Boot, "panic: boot parse: step budget") {
				res.Count("boot_parse_not_judged(loops or unbounded)", 1)
				return nil
			}
			if now != "budget" && then != now {
				res.Viol = &Violation{Class: "initialisation-order", Key: "initialisation-order", Sub: pl.u.SpecIdx,
					Msg: fmt.Sprintf("grammar [%s], variant %s: a parse of the empty input from a package-level initialiser ended %q, the same parse after initialisation ends %q (%s)", pl.sc.Spec.Short(), pl.u.Variant, jr.Boot, now, jr.Parses[0].Msg)}
				return res
			}
			return nil
		}
		if jr.Kind == "soak-nested" {
			if strings.Contains(jr.Err, "needs a global-form parser") {
				res.Count("nested_parse_not_offered_by_this_tree(no PushContex/PopContex)", 1)
				return nil
			}
			res.Count("soak_nested_histories", 1)
			res.Count("soak_nested_parses_aborted_and_never_popped", jr.SoakRounds)
			if jr.Err != "" || len(jr.Parses) == 0 {
				res.Harness = "engine B soak-nested job: " + jr.Err
				return res
			}
			fo, fg := pl.feeds[0][0], pl.feeds[0][2]
			first := &jr.Parses[0]
			d := diffParse2(&solo[pl.u.Name][fo], first, pl.sc, pl.u, true)
			if d == "" && len(first.Inner) == 1 {
				d = diffParse2(&solo[pl.u.Name][fg], &first.Inner[0], pl.sc, pl.u, true)
			} else if d == "" {
				d = fmt.Sprintf("%d nested parses ran instead of 1", len(first.Inner))
			}
			if d != "" {
				res.Viol = &Violation{Class: "nested-parse-interference", Key: "nested-parse-interference", Sub: pl.u.SpecIdx,
					Msg: fmt.Sprintf("grammar [%s], variant %s: first round of the nested soak differs from the same inputs parsed alone: %s", pl.sc.Spec.Short(), pl.u.Variant, d)}
				return res
			}
			if jr.SoakDeviation > 0 && len(jr.Parses) > 1 {
				res.Viol = &Violation{Class: "history-dependence", Key: "history-dependence", Sub: pl.u.SpecIdx,
					Msg: fmt.Sprintf("grammar [%s], variant %s: after %d parses whose nested parse of [%s] failed without being popped (the caller re-initialised every time), the parse of [%s] with a nested parse of [%s] ends %q (%s) instead of %q",
						pl.sc.Spec.Short(), pl.u.Variant, jr.SoakDeviation, feedStr(pl.sc.Spec, pl.sc.Feeds[pl.feeds[0][1]].Toks), feedStr(pl.sc.Spec, pl.sc.Feeds[fo].Toks), feedStr(pl.sc.Spec, pl.sc.Feeds[fg].Toks),
						jr.Parses[1].Outcome, jr.Parses[1].Msg, first.Outcome)}
				return res
			}
			return nil
		}
		if jr.Kind == "soak" {
			res.Count("soak_histories", 1)
			res.Count("soak_reinit_and_parse_rounds", jr.SoakRounds)
			if jr.Err != "" || len(jr.Parses) == 0 {
				res.Harness = "engine B soak job: " + jr.Err
				return res
			}
			fi := pl.feeds[0][0]
			if d := diffParse2(&solo[pl.u.Name][fi], &jr.Parses[0], pl.sc, pl.u, true); d != "" {
				res.Viol = &Violation{Class: "history-dependence", Key: "history-dependence", Sub: pl.u.SpecIdx,
					Msg: fmt.Sprintf("grammar [%s], variant %s: the first parse of a soak run differs from the same input parsed alone: %s", pl.sc.Spec.Short(), pl.u.Variant, d)}
				return res
			}
			if jr.SoakDeviation > 0 && len(jr.Parses) > 1 {
				res.Viol = &Violation{Class: "history-dependence", Key: "history-dependence", Sub: pl.u.SpecIdx,
					Msg: fmt.Sprintf("grammar [%s], variant %s: one parser re-initialised before every parse of [%s]: round %d differs from round 0: %s", pl.sc.Spec.Short(), pl.u.Variant,
						feedStr(pl.sc.Spec, pl.sc.Feeds[fi].Toks), jr.SoakDeviation, diffParse2(&jr.Parses[0], &jr.Parses[1], pl.sc, pl.u, true))}
				return res
			}
			return nil
		}
		lists := [][]engbrt.ParseResult{jr.Parses}
		kind := "history"
		if jr.Kind == "interleave" {
			lists = jr.CtxParses
			kind = "interleaving"
			res.Count("interleavings", 1)
			res.Count("context_switches", switches(jr.Schedule))
			res.Keys = append(res.Keys, hkey(jr.Schedule, pl.u.Name))
		} else {
			res.Count("histories", 1)
		}
		if jr.Err != "" {
			res.Harness = "engine B job: " + jr.Err
			return res
		}
		for c, prs := range lists {
			if len(prs) != len(pl.feeds[c]) {
				res.Viol = &Violation{Class: "parse-missing", Key: "parse-missing", Sub: pl.u.SpecIdx,
					Msg: fmt.Sprintf("grammar [%s], variant %s: context %d ran %d of %d parses", pl.sc.Spec.Short(), pl.u.Variant, c, len(prs), len(pl.feeds[c]))}
				return res
			}
			for k := range prs {
				fi := pl.feeds[c][k]
				alone := &solo[pl.u.Name][fi]
				got := &prs[k]
				d := diffParse2(alone, got, pl.sc, pl.u, true)
				if d == "" && got.Trace != "" && !alone.TraceCapped && alone.Trace != got.Trace {
					d = fmt.Sprintf("trace differs:\n alone: %q\n here:  %q", tailStr(alone.Trace, 300), tailStr(got.Trace, 300))
				}
				if pl.sc.Feeds[fi].PanicAt >= 0 {
					res.Count("fault_lexer_failed_mid_parse", 1)
				}
				if alone.Outcome == "syntax" {
					res.Count("fault_parse_aborted_by_syntax_error", 1)
				}
				res.Count("parses_compared", 1)
				if d == "" && kind == "history" && pl.nests[k] != nil {
					// the parses that ran nested inside this one: each must equal the same input parsed alone, too
					if got.NestSkipped {
						res.Count("nested_parse_not_offered_by_this_tree(no PushContex/PopContex)", 1)
					} else {
						var walk func(np *nestPlan, inner []engbrt.ParseResult, depth int) string
						walk = func(np *nestPlan, inner []engbrt.ParseResult, depth int) string {
							if len(inner) != 1 {
								return fmt.Sprintf("nested parse (depth %d) of [%s] was planned inside an action but %d nested parses ran", depth, feedStr(pl.sc.Spec, pl.sc.Feeds[np.Fi].Toks), len(inner))
							}
							res.Count("fault_parse_suspended_by_nested_parse", 1)
							res.Count("parses_compared", 1)
							if dd := diffParse2(&solo[pl.u.Name][np.Fi], &inner[0], pl.sc, pl.u, true); dd != "" {
								return fmt.Sprintf("the parse of [%s] nested at depth %d differs from the same input parsed alone: %s", feedStr(pl.sc.Spec, pl.sc.Feeds[np.Fi].Toks), depth, dd)
							}
							if np.Inner != nil {
								return walk(np.Inner, inner[0].Inner, depth+1)
							}
							return ""
						}
						d = walk(pl.nests[k], got.Inner, 1)
					}
				} else if d != "" && kind == "history" && pl.nests[k] != nil {
					d = fmt.Sprintf("(this parse was suspended at one of its actions for a nested parse of [%s] between PushContex and PopContex) %s", feedStr(pl.sc.Spec, pl.sc.Feeds[pl.nests[k].Fi].Toks), d)
				}
				if d != "" {
					var hist []string
					for kk := 0; kk <= k; kk++ {
						hist = append(hist, "["+feedStr(pl.sc.Spec, pl.sc.Feeds[pl.feeds[c][kk]].Toks)+"]")
					}
					class := "history-dependence"
					if kind == "interleaving" {
						class = "context-interference"
					} else if pl.nests[k] != nil {
						class = "nested-parse-interference"
					}
					res.Viol = &Violation{Class: class, Key: class, Sub: pl.u.SpecIdx,
						Msg: fmt.Sprintf("grammar [%s], variant %s, %s: parse #%d of context %d (after %v) differs from the same input parsed alone: %s; schedule of contexts: %v",
							pl.sc.Spec.Short(), pl.u.Variant, kind, k+1, c, hist, d, head(jr.Schedule, 60))}
					return res
				}
			}
		}
		return nil
	}
	if os.Getenv("VERIF_C15_ONLY_PARALLEL") != "" {
		// (debug aid) skip parts (a) and (b), to see what part (c) alone finds
		goJobs, tsJobs = nil, nil
	}
	if pb.Go != nil && len(goJobs) > 0 {
		t0 := time.Now()
		rs, err := pb.Go.Run(goJobs)
		res.Count("ms_go_histories", int(time.Since(t0).Milliseconds()))
		if err != nil {
			res.Harness = "engine B run: " + err.Error()
			return res
		}
		for i := range rs {
			res.LogHash = hkey(res.LogHash, jsonStr(rs[i]))
			if v := judge(&rs[i], goPlans[i]); v != nil {
				return v
			}
		}
	}
	if len(tsJobs) > 0 {
		rs, err := engb.RunTS(verifDir(ctx), ctx.Scratch, pb.TSFiles, tsJobs)
		if err != nil {
			res.Harness = "engine B (node): " + err.Error()
			return res
		}
		for i := range rs {
			if rs[i].Err != "" {
				continue
			}
			res.Count("histories_typescript", 1)
			if v := judge(&rs[i], tsPlans[i]); v != nil {
				return v
			}
		}
	}
	// ---- (c) truly parallel contexts under the race detector (not exactly replayable: the Go scheduler decides)
	every := 8
	if ctx.Thorough() {
		every = 3
	}
	if pb.Go != nil && in.Index%every == 0 {
		if v := c15Parallel(ctx, res, pb, solo, r.Sub("parallel")); v != nil {
			return v
		}
	}
	for _, sc := range pb.Specs {
		if len(sc.Feeds) > 0 {
			res.Keys = append(res.Keys, hkey(sc.Spec.Short()))
		}
	}
	if len(pb.Specs) > 0 {
		res.Sample = map[string]any{"grammars_in_batch": len(pb.Specs), "first_grammar": pb.Specs[0].Spec.Short(), "histories_per_parser": nHist, "ops_per_history": 2 * histLen, "interleavings_per_o_parser": nInter}
	}
	return res
}

var raceFrameRe = regexp.MustCompile(`/(p[\d_]+)/parser\.go:(\d+)`)

// c15Parallel runs 3-4 contexts of every -o parser in real goroutines in a -race build of the driver.
func c15Parallel(ctx *Ctx, res *Result, pb *parserBatch, solo map[string][]engbrt.ParseResult, r *rng.R) *Result {
	type plan struct {
		sc    *specCtx
		u     *genUnit
		feeds [][]int
	}
	var jobs []engbrt.Job
	var plans []plan
	epiStart := map[string]int{}
	for si, sc := range pb.Specs {
		if len(sc.Feeds) == 0 {
			continue
		}
		for _, u := range sc.sortedUnits() {
			if !u.Variant.Object || u.Variant.Lang != "go" || u.GenErr != "" || u.CompErr != "" {
				continue
			}
			// first line of the epilogue (user code) in the generated file
			line := 1
			for _, ln := range strings.Split(string(u.Out), "\n") {
				if strings.HasPrefix(ln, "var HookNext func(") {
					break
				}
				line++
			}
			epiStart[u.Name] = line
			q := r.Sub(si, u.Variant.String())
			nc := q.Range(3, 4)
			var ctxs [][]engbrt.Op
			var idxs [][]int
			for c := 0; c < nc; c++ {
				var ops []engbrt.Op
				var idx []int
				for k := 0; k < 4; k++ {
					fi := q.Intn(len(sc.Feeds))
					// only inputs that end (accept / syntax error / lexer failure) when parsed alone
					for t := 0; t < 20; t++ {
						if o := solo[u.Name][fi].Outcome; o == "accept" || o == "syntax" || o == "lexpanic" {
							break
						}
						fi = q.Intn(len(sc.Feeds))
					}
					if o := solo[u.Name][fi].Outcome; o != "accept" && o != "syntax" && o != "lexpanic" {
						continue
					}
					if k > 0 {
						ops = append(ops, engbrt.Op{Op: "init"})
					}
					fd := sc.Feeds[fi].feed()
					ops = append(ops, engbrt.Op{Op: "parse", Feed: &fd})
					idx = append(idx, fi)
				}
				ctxs = append(ctxs, ops)
				idxs = append(idxs, idx)
			}
			jobs = append(jobs, engbrt.Job{Parser: u.Name, Kind: "parallel", Ctxs: ctxs, Budget: 3000})
			plans = append(plans, plan{sc, u, idxs})
		}
	}
	if len(jobs) == 0 {
		return nil
	}
	rs, raceLog, err := pb.Go.RunRace(jobs)
	if err != nil {
		res.Harness = "engine B (race build): " + err.Error()
		return res
	}
	res.Count("parallel_runs_under_race_detector", len(jobs))
	// race reports: a report with a frame in GENERATED code (before the epilogue) is a violation
	for _, block := range strings.Split(raceLog, "==================") {
		if !strings.Contains(block, "WARNING: DATA RACE") {
			continue
		}
		res.Count("race_reports", 1)
		inGenerated := ""
		for _, m := range raceFrameRe.FindAllStringSubmatch(block, -1) {
			ln, _ := strconv.Atoi(m[2])
			if start, ok := epiStart[m[1]]; ok && ln < start {
				inGenerated = m[1]
			}
		}
		if inGenerated == "" {
			res.Harness = "the race detector reports a race outside generated parser code (harness or epilogue):\n" + firstLines(block, 25)
			return res
		}
		var pl *plan
		for i := range plans {
			if plans[i].u.Name == inGenerated {
				pl = &plans[i]
			}
		}
		sub, gram, vn := 0, "", ""
		if pl != nil {
			sub, gram, vn = pl.u.SpecIdx, pl.sc.Spec.Short(), pl.u.Variant.String()
		}
		res.Viol = &Violation{Class: "data-race-between-contexts", Key: "data-race-between-contexts", Sub: sub, NotReplayable: true,
			Msg: fmt.Sprintf("grammar [%s], variant %s: contexts running in parallel goroutines race on memory of the generated parser (race detector report, not exactly replayable):\n%s", gram, vn, firstLines(strings.TrimSpace(block), 22))}
		return res
	}
	// results: as if alone (reductions are not recorded in parallel mode)
	for i := range rs {
		pl := plans[i]
		for c, prs := range rs[i].CtxParses {
			for k := range prs {
				if k >= len(pl.feeds[c]) {
					break
				}
				alone := solo[pl.u.Name][pl.feeds[c][k]]
				got := prs[k]
				res.Count("parallel_parses_compared", 1)
				if alone.Outcome != got.Outcome || alone.Fetched != got.Fetched || (alone.Outcome == "accept" && fmt.Sprint(valueOf(alone.Value, pl.u, pl.sc.Spec)) != fmt.Sprint(valueOf(got.Value, pl.u, pl.sc.Spec))) {
					res.Viol = &Violation{Class: "parallel-context-interference", Key: "parallel-context-interference", Sub: pl.u.SpecIdx, NotReplayable: true,
						Msg: fmt.Sprintf("grammar [%s], variant %s, %d contexts in parallel goroutines (not exactly replayable): parse #%d of context %d on input [%s] ended %s/%v after %d tokens; alone it ends %s/%v after %d tokens",
							pl.sc.Spec.Short(), pl.u.Variant, len(rs[i].CtxParses), k+1, c, feedStr(pl.sc.Spec, pl.sc.Feeds[pl.feeds[c][k]].Toks),
							got.Outcome, valueOf(got.Value, pl.u, pl.sc.Spec), got.Fetched, alone.Outcome, valueOf(alone.Value, pl.u, pl.sc.Spec), alone.Fetched)}
					return res
				}
			}
		}
	}
	return nil
}

func switches(s []int) int {
	n := 0
	for i := 1; i < len(s); i++ {
		if s[i] != s[i-1] {
			n++
		}
	}
	return n
}

func head(s []int, n int) []int {
	if len(s) > n {
		return s[:n]
	}
	return s
}

func init() {
	gen := genParsers("C15", false)
	Register(&Checker{
		ID: "C15", Level: "exploration", Engine: "B",
		Rule:     "case = batch of grammars x 5 variants. (a) histories on one parser: seeded sequences of init (or a fresh context) + parse(x), x drawn from accepted, rejected (parse aborted by the parser's own panic) and lexer-fails-at-token-i inputs of different lengths; (b) -o variants: 2-4 contexts, each with its own op list, advanced one yield point (every GetToken call and every reduction) at a time by a seeded scheduler with uniform / burst / switch-after-reduce policies, half of them with the trace on (output attributed per context). (c) in some batches the contexts of every -o parser also run in truly parallel goroutines in a -race build of the driver (results compared with solo runs; a race report with a frame in generated code is a violation; this part is not exactly replayable). (d) global Go form: parses suspended at a seeded reduction for a nested parse (PushContex / ParserInit / Parser / PopContex from the action, up to two levels, nested parse accepted, rejected or aborted). (e) a parse of the empty input from a package-level initialiser, compared with the same parse after initialisation. (f) soak: one parser re-initialised and parsing the same short input 1.2 million times, every round compared with round 0. Oracle: every parse equals the same input parsed alone right after initialisation (verdict, reductions, tokens requested, value, trace). distinct_nontrivial = distinct interleavings (context-id sequences) + distinct grammars.",
		NumCases: func(ctx *Ctx) int { return fixedCases(ctx, 32, 800) },
		Gen: func(ctx *Ctx, i int) *Input {
			in := gen(ctx, i)
			if len(in.Specs) > 5 {
				in.Specs = in.Specs[:5]
			}
			return in
		},
		Exec:      execC15,
		Probes:    []string{"parallel_runs_under_race_detector", "histories", "interleavings", "context_switches", "fault_lexer_failed_mid_parse", "fault_parse_aborted_by_syntax_error", "histories_typescript", "fault_parse_suspended_by_nested_parse", "parses_during_package_initialisation", "soak_histories"},
		FaultKeys: []string{"fault_lexer_failed_mid_parse", "fault_parse_aborted_by_syntax_error", "fault_parse_suspended_by_nested_parse"},
		Assume:    []string{"parts (a) and (b): exactly one context runs at a time (cooperative scheduler owned by the harness), exactly replayable; part (c): the Go scheduler decides, the race detector has no false positives but finds only races that the executed schedule exposes", "'alone' = first parse after initialisation in the same process"},
		Real:      []string{"yaccgo generator (instrumented copy)", "go build", "generated parsers incl. their ParserInit / MakeParserContext / initialize"},
		Stubs:     []string{"token source", "context scheduler (seeded, cooperative)"},
	})
}
