package props

import (
	"fmt"
	"regexp"
	"sort"
	"strings"

	"github.com/acekingke/yaccgo/verifsim/enga"
	"github.com/acekingke/yaccgo/verifsim/engbrt"
	"github.com/acekingke/yaccgo/verifsim/ref"
	"github.com/acekingke/yaccgo/verifsim/rng"
	"github.com/acekingke/yaccgo/verifsim/wl"
)

// ---------------------------------------------------------------- C12

func genC12(ctx *Ctx, i int) *Input {
	r := rng.New(ctx.Seed, "C12", i)
	in := &Input{Index: i}
	in.Variant = wl.AllVariants[r.Intn(len(wl.AllVariants))]
	if i%2 == 0 {
		// usable grammar: must be processed under every schedule
		s, _ := grammarCase(ctx, i/2, true)
		in.Spec = s
		in.Extra = map[string]any{"expect": "usable"}
		if in.Variant.Lang == "ts" && r.Chance(1, 3) {
			// a token spelled like a Go keyword is an ordinary constant name in TypeScript
			s = s.Clone()
			for ti := range s.Terms {
				if s.Terms[ti].Name != "" {
					s.Terms[ti].Name = []string{"range", "map", "select", "chan", "defer", "goto", "func", "go"}[r.Intn(8)]
					break
				}
			}
			in.Spec = s
		}
	} else {
		base := mixedSpec(ctx, r.Sub("base"))
		kind := wl.UnusableKinds[(i/2)%len(wl.UnusableKinds)]
		in.Spec = wl.MakeUnusable(base, kind, r.Sub("inject"))
		in.Extra = map[string]any{"expect": "unusable", "kind": kind}
	}
	if r.Chance(1, 2) {
		in.LayoutSeed = r.Uint64() | 1
	}
	in.Scheds = schedules(ctx, r.Sub("sched"), numSched(ctx, 3, 6))
	return in
}

func execC12(ctx *Ctx, in *Input) *Result {
	res := &Result{}
	g := ref.New(in.Spec)
	usable, why := g.Usable()
	if usable {
		if _, ok := g.BuildLR0(1900); !ok {
			res.Count("excluded_too_many_states", 1)
			return res
		}
	}
	text := in.text(wl.EpiMinimal)
	for si, sc := range in.Scheds {
		o := enga.Run(enga.Case{Text: text, Variant: in.Variant, Sched: sc, Mode: "gen"})
		logObs(res, o)
		res.SimTicks += o.Ticks
		res.Count("runs", 1)
		if usable {
			res.Count("usable_runs", 1)
			if o.Outcome != enga.OutOK {
				res.Viol = &Violation{Class: "usable-rejected", Key: "usable-rejected:" + o.Outcome,
					Msg: fmt.Sprintf("schedule %d (%s), variant %s: a usable grammar was not processed: %s: %s\n%s", si, sc, in.Variant, o.Outcome, firstLines(o.Diag, 4), tailStr(o.Stdout, 300))}
				return res
			}
			if len(o.Output) == 0 {
				res.Viol = &Violation{Class: "usable-no-output", Key: "usable-no-output", Msg: fmt.Sprintf("schedule %d (%s): generation reported success but wrote no output", si, sc)}
				return res
			}
			continue
		}
		res.Count("unusable_runs", 1)
		res.Count("fault_unusable_"+fmt.Sprint(in.Extra["kind"]), 1)
		switch o.Outcome {
		case enga.OutOK:
			res.Viol = &Violation{Class: "unusable-accepted", Key: "unusable-accepted:" + fmt.Sprint(in.Extra["kind"]),
				Msg: fmt.Sprintf("schedule %d (%s), variant %s: yaccgo generated a parser for an unusable grammar (%s)", si, sc, in.Variant, why)}
			return res
		case enga.OutError, enga.OutPanic:
			if strings.TrimSpace(o.Diag) == "" && strings.TrimSpace(o.Stdout) == "" {
				res.Viol = &Violation{Class: "unusable-no-reason", Key: "unusable-no-reason", Msg: fmt.Sprintf("schedule %d: refused (%s) without saying why (%s)", si, o.Outcome, why)}
				return res
			}
			res.Count("refused_with_diagnostic", 1)
		case enga.OutRuntime:
			res.Viol = &Violation{Class: "unusable-crash", Key: "unusable-crash:" + fmt.Sprint(in.Extra["kind"]),
				Msg: fmt.Sprintf("schedule %d (%s): unusable grammar (%s) was not refused with a reason but crashed: %s", si, sc, why, firstLines(o.Diag, 3))}
			return res
		default:
			res.Count("skipped_"+o.Outcome+"(C13)", 1)
		}
		if len(o.Output) != 0 {
			res.Viol = &Violation{Class: "unusable-output-written", Key: "unusable-output-written", Msg: fmt.Sprintf("schedule %d: generation was refused but an output file was written", si)}
			return res
		}
	}
	res.Keys = append(res.Keys, hkey(in.Spec.Short()))
	if in.Index%50 < 2 {
		res.Sample = map[string]any{"grammar": in.Spec.Short(), "expect": in.Extra["expect"], "reference_reason": why, "variant": in.Variant.String()}
	}
	return res
}

// ---------------------------------------------------------------- C11

func genC11(ctx *Ctx, i int) *Input {
	r := rng.New(ctx.Seed, "C11", i)
	in := &Input{Index: i, Sub: r.Uint64()}
	n := 8
	for k := 0; k < n; k++ {
		if k%4 == 3 {
			in.Specs = append(in.Specs, mixedSpec(ctx, r.Sub("spec", k)))
		} else {
			in.Specs = append(in.Specs, wl.TokenMix(r.Sub("spec", k)))
		}
	}
	in.Variants = []wl.Variant{wl.AllVariants[r.Intn(4)], {Lang: "ts"}}
	if r.Chance(1, 2) {
		in.LayoutSeed = r.Uint64() | 1
	}
	// schedule 0 is the one the files are generated and compiled under; it alternates canonical / swarm
	in.Scheds = schedules(ctx, r.Sub("sched"), numSched(ctx, 4, 8))
	if i%2 == 1 && len(in.Scheds) > 1 {
		in.Scheds[0], in.Scheds[1] = in.Scheds[1], in.Scheds[0]
	}
	return in
}

// knownTerms: terminals yaccgo must know: declared with %token / in a precedence line, or used in a rule.
func knownTerms(s *wl.Spec) map[int]bool {
	known := map[int]bool{}
	for _, t := range s.UsedTerms() {
		known[t] = true
	}
	for ti, t := range s.Terms {
		if t.Decl != wl.DeclUseOnly {
			known[ti] = true
		}
	}
	return known
}

// checkSymbolTable applies the numbering rules to the symbol table of one run.
func checkSymbolTable(s *wl.Spec, a *Auto) (class, msg string, codeOf, idOf map[string]int) {
	codeOf, idOf = map[string]int{}, map[string]int{}
	seenCode := map[int]string{}
	for y, name := range a.SymName {
		if a.IsNT[y] {
			continue
		}
		codeOf[name] = a.Value[y]
		idOf[name] = y
		if prev, dup := seenCode[a.Value[y]]; dup {
			return "duplicate-token-code", fmt.Sprintf("terminals %s and %s both have code %d", prev, name, a.Value[y]), nil, nil
		}
		seenCode[a.Value[y]] = name
		if a.Value[y] == -1 && name != "$" {
			return "code-collides-with-end-marker", fmt.Sprintf("terminal %s has code -1", name), nil, nil
		}
		if a.Value[y] == 0 {
			return "token-code-zero", fmt.Sprintf("terminal %s has code 0", name), nil, nil
		}
	}
	if codeOf["$"] != -1 {
		return "end-marker-code", fmt.Sprintf("the end marker has code %d, not -1", codeOf["$"]), nil, nil
	}
	known := knownTerms(s)
	for ti, t := range s.Terms {
		if !known[ti] {
			continue
		}
		c, ok := codeOf[t.YName()]
		if !ok {
			return "terminal-missing", fmt.Sprintf("terminal %s is not in yaccgo's symbol table", t.Key()), nil, nil
		}
		if t.Name == "" && c != int(t.Lit) {
			return "literal-code", fmt.Sprintf("literal %s has code %d, its character code is %d", t.Key(), c, int(t.Lit)), nil, nil
		}
		if t.Name != "" && t.Code != 0 && c != t.Code {
			return "explicit-code-lost", fmt.Sprintf("token %s was declared with number %d but has code %d", t.Name, t.Code, c), nil, nil
		}
	}
	return "", "", codeOf, idOf
}

func execC11(ctx *Ctx, in *Input) *Result {
	res := &Result{}
	if in.Spec != nil && len(in.Specs) == 0 {
		in.Specs = []*wl.Spec{in.Spec}
	}
	// ---- (a) the symbol table under every schedule
	for si, s := range in.Specs {
		if ok, _ := ref.New(s).Usable(); !ok {
			res.Count("excluded_unusable", 1)
			continue
		}
		text := renderSpec(s, wl.Variant{Lang: "go"}, in.LayoutSeed, wl.EpiNone)
		for k, sc := range in.Scheds {
			ob := enga.Run(enga.Case{Text: text, Variant: wl.Variant{Lang: "go"}, Sched: sc, Mode: "build"})
			logObs(res, ob)
			res.SimTicks += ob.Ticks
			res.Count("runs", 1)
			if ob.Outcome != enga.OutOK {
				res.Count("skipped_generation_failed(C12)", 1)
				continue
			}
			if class, msg, _, _ := checkSymbolTable(s, Snapshot(ob.L)); class != "" {
				res.Viol = &Violation{Class: class, Key: class, Sub: si, Msg: fmt.Sprintf("tokens [%s], schedule %d (%s): %s", tokenDecls(s), k, sc, msg)}
				return res
			}
			res.Count("symbol_tables_checked", 1)
		}
		lit, expl, auto := 0, 0, 0
		for _, t := range s.Terms {
			if t.Name == "" {
				lit++
			} else if t.Code != 0 {
				expl++
			} else {
				auto++
			}
		}
		if lit > 0 && expl > 0 {
			res.Count("probe_literals_and_explicit_numbers", 1)
		}
		if auto > 0 {
			res.Count("probe_auto_numbered_token", 1)
		}
		res.Keys = append(res.Keys, hkey(jsonStr(s.Terms), jsonStr(s.Levels)))
	}
	// ---- (b) the generated files under schedule 0, through their compiled code
	variants := in.Variants
	if len(variants) == 0 {
		variants = []wl.Variant{{Lang: "go"}, {Lang: "ts"}}
	}
	pb, ok := prepareBatch(ctx, res, in, variants, wl.EpiFull, feedSizes{})
	defer pb.cleanup()
	if !ok {
		return res
	}
	var goJobs, tsJobs []engbrt.Job
	probes := map[string][]int{}
	for _, sc := range pb.Specs {
		if sc.Auto == nil {
			continue
		}
		isCode := map[int]bool{}
		var codes []int
		for y := range sc.Auto.SymName {
			if !sc.Auto.IsNT[y] {
				codes = append(codes, sc.Auto.Value[y])
				isCode[sc.Auto.Value[y]] = true
			}
		}
		sort.Ints(codes)
		// a band of other integers: small, around every code, large, negative
		other := []int{0, -2, -3, -100, 1 << 20, 999999}
		for c := -1; c < 300; c += 7 {
			other = append(other, c)
		}
		for _, c := range codes {
			other = append(other, c-1, c+1)
		}
		for _, c := range other {
			if !isCode[c] {
				codes = append(codes, c)
			}
		}
		for _, u := range sc.sortedUnits() {
			if u.GenErr != "" {
				continue
			}
			probes[u.Name] = codes
			j := engbrt.Job{Parser: u.Name, Kind: "translate", Codes: codes}
			if u.CompErr != "" {
				continue
			}
			if u.Variant.Lang == "go" {
				goJobs = append(goJobs, j)
			} else {
				tsJobs = append(tsJobs, j)
			}
		}
	}
	results := map[string]*engbrt.JobResult{}
	if pb.Go != nil && len(goJobs) > 0 {
		rs, err := pb.Go.Run(goJobs)
		if err != nil {
			res.Harness = "engine B run: " + err.Error()
			return res
		}
		for i := range rs {
			results[rs[i].Parser] = &rs[i]
		}
	}
	if len(tsJobs) > 0 {
		rs, err := engbRunTS(ctx, pb, tsJobs)
		if err != nil {
			res.Harness = "engine B (node): " + err.Error()
			return res
		}
		for i := range rs {
			results[rs[i].Parser] = &rs[i]
		}
	}
	for si, sc := range pb.Specs {
		if sc.Auto == nil {
			continue
		}
		_, _, codeOf, idOf := checkSymbolTable(sc.Spec, sc.Auto)
		if codeOf == nil {
			continue // already reported by (a) if it is a violation under schedule 0
		}
		idOfCode := map[int]int{}
		for n, c := range codeOf {
			idOfCode[c] = idOf[n]
		}
		for _, u := range sc.sortedUnits() {
			fail := func(class, f string, a ...any) *Result {
				res.Viol = &Violation{Class: class, Key: class, Sub: si, Msg: fmt.Sprintf("tokens [%s], variant %s: ", tokenDecls(sc.Spec), u.Variant) + fmt.Sprintf(f, a...)}
				return res
			}
			if u.GenErr != "" {
				res.Count("skipped_generation_failed(C12)", 1)
				continue
			}
			if u.CompErr != "" {
				if m := undefinedConstRe.FindStringSubmatch(u.CompErr); m != nil && isTokenName(sc.Spec, m[1]) {
					return fail("constant-missing", "the generated file defines no constant for token %s:\n%s", m[1], firstLines(u.CompErr, 3))
				}
				if strings.Contains(u.CompErr, "duplicate case") || strings.Contains(u.CompErr, "redeclared") {
					return fail("generated-file-duplicate-definition", "the generated file does not compile because a token code or constant is defined twice:\n%s", firstLines(u.CompErr, 4))
				}
				res.Count("skipped_does_not_compile(C16)", 1)
				continue
			}
			jr := results[u.Name]
			if jr == nil || jr.Err != "" {
				res.Count("skipped_not_loaded(C16)", 1)
				continue
			}
			if jr.ConstsErr != "" {
				return fail("constant-missing", "reading the token constants of the generated file failed: %s", jr.ConstsErr)
			}
			// constants: every named token, with its code
			known := knownTerms(sc.Spec)
			for ti, t := range sc.Spec.Terms {
				if t.Name == "" || !known[ti] {
					continue
				}
				c, ok := jr.Consts[t.Name]
				if !ok {
					return fail("constant-missing", "no constant is usable for token %s", t.Name)
				}
				if c != codeOf[t.Name] {
					return fail("constant-wrong-code", "constant %s = %d but the token's code is %d", t.Name, c, codeOf[t.Name])
				}
			}
			if sc.Spec.EOFAlias != "" {
				if c, ok := jr.Consts[sc.Spec.EOFAlias]; !ok || c != -1 {
					return fail("end-marker-alias-constant", "the token %s was declared with number -1 (alias of the end marker) but its constant is %d (defined: %v)", sc.Spec.EOFAlias, c, ok)
				}
			}
			// translate: every code -> its own symbol; -1 -> end marker; any other integer -> the error column (symbol 0)
			codes := probes[u.Name]
			if jr.TransMissing {
				// the TypeScript file has no function called `translate` (a private helper a tree may rename): the
				// translation is then only observable through parsing, which C01/C02/C06/C08 do
				res.Count("typescript_translate_not_callable_by_name(skipped)", 1)
				res.Count("files_checked", 1)
				continue
			}
			if len(jr.Trans) != len(codes) {
				res.Harness = "translate probe count mismatch"
				return res
			}
			for k, c := range codes {
				want, isTok := idOfCode[c]
				if !isTok {
					want = 0
				}
				if jr.Trans[k] != want {
					if isTok {
						return fail("translate-wrong-symbol", "translate(%d) = %d, but %d is the code of symbol %d (%s)", c, jr.Trans[k], c, want, sc.Auto.SymName[want])
					}
					return fail("translate-maps-foreign-code", "translate(%d) = %d, but %d is no token code: it must map to the error column 0", c, jr.Trans[k], c)
				}
			}
			res.Count("files_checked", 1)
			res.Count("translate_probes", len(codes))
		}
	}
	if len(in.Specs) > 0 {
		res.Sample = map[string]any{"tokens_of_first_grammar": tokenDecls(in.Specs[0]), "grammars": len(in.Specs), "schedules": len(in.Scheds), "variants": fmt.Sprint(variants)}
	}
	return res
}

var undefinedConstRe = regexp.MustCompile(`undefined: ([A-Za-z_][A-Za-z0-9_]*)`)

func isTokenName(s *wl.Spec, n string) bool {
	if s.EOFAlias == n {
		return true
	}
	for _, t := range s.Terms {
		if t.Name == n {
			return true
		}
	}
	return false
}

func tokenDecls(s *wl.Spec) string {
	var decl []string
	for _, t := range s.Terms {
		d := t.Key()
		if t.Code != 0 {
			d += fmt.Sprintf("=%d", t.Code)
		}
		if t.Tag != "" {
			d += "<" + t.Tag + ">"
		}
		d += []string{"", "(prec-only)", "(use-only)"}[t.Decl]
		if t.Redecl {
			d += "(redeclared)"
		}
		decl = append(decl, d)
	}
	return strings.Join(decl, " ")
}

func init() {
	Register(&Checker{
		ID: "C12", Level: "exploration", Engine: "A",
		Rule:     "even cases: usable grammars (all families) that must be processed under every map-order schedule and variant; odd cases: a usable base grammar with ONE injected defect (undefined symbol, %type'd nonterminal without rules, self-/mutually recursive unproductive nonterminal, unreachable unproductive one, unproductive start symbol, unproductive next to nullable ones, deep chain) at an early/late/random position. Oracle: reference productivity/definedness. distinct_nontrivial = distinct grammars.",
		NumCases: func(ctx *Ctx) int { return fixedCases(ctx, 1600, 60000) },
		Gen:      genC12, Exec: execC12,
		Probes:    []string{"usable_runs", "unusable_runs", "refused_with_diagnostic"},
		FaultKeys: []string{"fault_unusable_undefined", "fault_unusable_undefined-like-alias", "fault_unusable_undefined-like-field", "fault_unusable_undefined-case-of-token", "fault_unusable_norules", "fault_unusable_unproductive", "fault_unusable_mutual", "fault_unusable_unreachable", "fault_unusable_start", "fault_unusable_nullable-mix", "fault_unusable_deep"},
		Assume:    []string{"reference productivity fixpoint", "a refusal 'says why' when it carries any non-empty diagnostic that is not a Go runtime error"},
	})
	Register(&Checker{
		ID: "C11", Level: "exploration", Engine: "A+B",
		Rule:     "case = 8 token-declaration mixes (explicit numbers small/large/negative/next to literal codes, character literals declared or only used, tagged/untagged, declared by %token, several per %token line, only by a precedence line, re-declared to add a number) x K map-order schedules: (a) the symbol table of every run is checked against the numbering rules; (b) the files generated under schedule 0 in one Go variant and in TypeScript are compiled / loaded and probed: every named token's constant, translate(code) for every token code, -1 and a band of other integers. distinct_nontrivial = distinct token declaration sets.",
		NumCases: func(ctx *Ctx) int { return fixedCases(ctx, 96, 6000) },
		Gen:      genC11, Exec: execC11,
		Probes: []string{"probe_auto_numbered_token", "probe_literals_and_explicit_numbers", "files_checked", "translate_probes", "symbol_tables_checked"},
		Assume: []string{"constants and translate are observed through the compiled generated code (an epilogue function returns the constants by name; translate is called directly), not by reading the text"},
		Real:   []string{"yaccgo generator (instrumented copy)", "go build / node on the generated files", "generated translate() and constants"},
		Stubs:  []string{"map-iteration order shim", "TypeScript type eraser"},
	})
}
