package props

import (
	"fmt"
	"regexp"
	"sort"
	"strconv"
	"strings"

	"github.com/acekingke/yaccgo/verifsim/enga"
	"github.com/acekingke/yaccgo/verifsim/ref"
	"github.com/acekingke/yaccgo/verifsim/rng"
	"github.com/acekingke/yaccgo/verifsim/wl"
)

// ---------------------------------------------------------------- C12

func genC12(ctx *Ctx, i int) *Input {
	r := rng.New(ctx.Seed, "C12", i)
	in := &Input{Index: i}
	in.Variant = wl.AllVariants[r.Intn(len(wl.AllVariants))]
	if i%2 == 0 {
		// usable grammar: must be processed under every schedule
		s, _ := grammarCase(ctx, i/2, true)
		in.Spec = s
		in.Extra = map[string]any{"expect": "usable"}
	} else {
		base := mixedSpec(ctx, r.Sub("base"))
		kind := wl.UnusableKinds[(i/2)%len(wl.UnusableKinds)]
		in.Spec = wl.MakeUnusable(base, kind, r.Sub("inject"))
		in.Extra = map[string]any{"expect": "unusable", "kind": kind}
	}
	if r.Chance(1, 2) {
		in.LayoutSeed = r.Uint64() | 1
	}
	in.Scheds = schedules(ctx, r.Sub("sched"), numSched(ctx, 3, 6))
	return in
}

func execC12(ctx *Ctx, in *Input) *Result {
	res := &Result{}
	g := ref.New(in.Spec)
	usable, why := g.Usable()
	if usable {
		if _, ok := g.BuildLR0(1900); !ok {
			res.Count("excluded_too_many_states", 1)
			return res
		}
	}
	text := in.text(wl.EpiMinimal)
	for si, sc := range in.Scheds {
		o := enga.Run(enga.Case{Text: text, Variant: in.Variant, Sched: sc, Mode: "gen"})
		logObs(res, o)
		res.SimTicks += o.Ticks
		res.Count("runs", 1)
		if usable {
			res.Count("usable_runs", 1)
			if o.Outcome != enga.OutOK {
				res.Viol = &Violation{Class: "usable-rejected", Key: "usable-rejected:" + o.Outcome,
					Msg: fmt.Sprintf("schedule %d (%s), variant %s: a usable grammar was not processed: %s: %s\n%s", si, sc, in.Variant, o.Outcome, firstLines(o.Diag, 4), tailStr(o.Stdout, 300))}
				return res
			}
			if len(o.Output) == 0 {
				res.Viol = &Violation{Class: "usable-no-output", Key: "usable-no-output", Msg: fmt.Sprintf("schedule %d (%s): generation reported success but wrote no output", si, sc)}
				return res
			}
			continue
		}
		res.Count("unusable_runs", 1)
		res.Count("fault_unusable_"+fmt.Sprint(in.Extra["kind"]), 1)
		switch o.Outcome {
		case enga.OutOK:
			res.Viol = &Violation{Class: "unusable-accepted", Key: "unusable-accepted:" + fmt.Sprint(in.Extra["kind"]),
				Msg: fmt.Sprintf("schedule %d (%s), variant %s: yaccgo generated a parser for an unusable grammar (%s)", si, sc, in.Variant, why)}
			return res
		case enga.OutError, enga.OutPanic:
			if strings.TrimSpace(o.Diag) == "" && strings.TrimSpace(o.Stdout) == "" {
				res.Viol = &Violation{Class: "unusable-no-reason", Key: "unusable-no-reason", Msg: fmt.Sprintf("schedule %d: refused (%s) without saying why (%s)", si, o.Outcome, why)}
				return res
			}
			res.Count("refused_with_diagnostic", 1)
		case enga.OutRuntime:
			res.Viol = &Violation{Class: "unusable-crash", Key: "unusable-crash:" + fmt.Sprint(in.Extra["kind"]),
				Msg: fmt.Sprintf("schedule %d (%s): unusable grammar (%s) was not refused with a reason but crashed: %s", si, sc, why, firstLines(o.Diag, 3))}
			return res
		default:
			res.Count("skipped_"+o.Outcome+"(C13)", 1)
		}
		if len(o.Output) != 0 {
			res.Viol = &Violation{Class: "unusable-output-written", Key: "unusable-output-written", Msg: fmt.Sprintf("schedule %d: generation was refused but an output file was written", si)}
			return res
		}
	}
	res.Keys = append(res.Keys, hkey(in.Spec.Short()))
	if in.Index%50 < 2 {
		res.Sample = map[string]any{"grammar": in.Spec.Short(), "expect": in.Extra["expect"], "reference_reason": why, "variant": in.Variant.String()}
	}
	return res
}

// ---------------------------------------------------------------- C11

var (
	goConstRe   = regexp.MustCompile(`(?m)^const ([A-Za-z_][A-Za-z0-9_]*) = (-?\d+)\s*$`)
	goCaseRe    = regexp.MustCompile(`case (-?\d+):\s*\n\s*conv = (\d+)`)
	goTransFunc = regexp.MustCompile(`(?s)func translate\(c int\) int \{(.*?)\n\treturn conv`)
	tsTransFunc = regexp.MustCompile(`(?s)function translate\(c :number\) :number \{(.*?)\n\treturn conv`)
)

func genC11(ctx *Ctx, i int) *Input {
	r := rng.New(ctx.Seed, "C11", i)
	in := &Input{Index: i}
	if i%4 == 3 {
		in.Spec = mixedSpec(ctx, r.Sub("spec"))
	} else {
		in.Spec = wl.TokenMix(r.Sub("spec"))
	}
	in.Variants = []wl.Variant{wl.AllVariants[r.Intn(4)], {Lang: "ts"}}
	if r.Chance(1, 2) {
		in.LayoutSeed = r.Uint64() | 1
	}
	in.Scheds = schedules(ctx, r.Sub("sched"), numSched(ctx, 3, 8))
	return in
}

func execC11(ctx *Ctx, in *Input) *Result {
	res := &Result{}
	s := in.Spec
	g := ref.New(s)
	if ok, _ := g.Usable(); !ok {
		res.Count("excluded_unusable", 1)
		return res
	}
	// terminals yaccgo must know: declared with %token / in a precedence line, or used in a rule
	known := map[int]bool{}
	for _, t := range s.UsedTerms() {
		known[t] = true
	}
	for ti, t := range s.Terms {
		if t.Decl != wl.DeclUseOnly {
			known[ti] = true
		}
	}
	for _, v := range in.Variants {
		text := in.textFor(v, wl.EpiMinimal)
		for si, sc := range in.Scheds {
			fail := func(class, f string, a ...any) *Result {
				res.Viol = &Violation{Class: class, Key: class, Msg: fmt.Sprintf("variant %s, schedule %d (%s): ", v, si, sc) + fmt.Sprintf(f, a...)}
				return res
			}
			// one build run for the symbol table, one gen run for the file (same schedule => same run)
			ob := enga.Run(enga.Case{Text: text, Variant: v, Sched: sc, Mode: "build"})
			logObs(res, ob)
			res.Count("runs", 1)
			if ob.Outcome != enga.OutOK {
				res.Count("skipped_generation_failed(C12)", 1)
				continue
			}
			a := Snapshot(ob.L)
			codeOf := map[string]int{}
			idOf := map[string]int{}
			seenCode := map[int]string{}
			for y, name := range a.SymName {
				if a.IsNT[y] {
					continue
				}
				codeOf[name] = a.Value[y]
				idOf[name] = y
				if prev, dup := seenCode[a.Value[y]]; dup {
					return fail("duplicate-token-code", "terminals %s and %s both have code %d", prev, name, a.Value[y])
				}
				seenCode[a.Value[y]] = name
				if a.Value[y] == -1 && name != "$" {
					return fail("code-collides-with-end-marker", "terminal %s has code -1", name)
				}
				if a.Value[y] == 0 {
					return fail("token-code-zero", "terminal %s has code 0", name)
				}
			}
			if codeOf["$"] != -1 {
				return fail("end-marker-code", "the end marker has code %d, not -1", codeOf["$"])
			}
			for ti, t := range s.Terms {
				if !known[ti] {
					continue
				}
				c, ok := codeOf[t.YName()]
				if !ok {
					return fail("terminal-missing", "terminal %s is not in yaccgo's symbol table", t.Key())
				}
				if t.Name == "" && c != int(t.Lit) {
					return fail("literal-code", "literal %s has code %d, its character code is %d", t.Key(), c, int(t.Lit))
				}
				if t.Name != "" && t.Code != 0 && c != t.Code {
					return fail("explicit-code-lost", "token %s was declared with number %d but has code %d", t.Name, t.Code, c)
				}
				if t.Name != "" && t.Code == 0 {
					res.Count("probe_auto_numbered_token", 1)
				}
			}
			og := enga.Run(enga.Case{Text: text, Variant: v, Sched: sc, Mode: "gen"})
			logObs(res, og)
			res.Count("runs", 1)
			if og.Outcome != enga.OutOK {
				res.Count("skipped_generation_failed(C12)", 1)
				continue
			}
			out := string(og.Output)
			// constants: exactly the named tokens, with their codes
			consts := map[string]int{}
			for _, m := range goConstRe.FindAllStringSubmatch(out, -1) {
				n, _ := strconv.Atoi(m[2])
				if m[1] == "ERROR_ACTION" || m[1] == "ACCEPT_ACTION" || m[1] == "NTERMINALS" {
					continue
				}
				if _, dup := consts[m[1]]; dup {
					return fail("constant-defined-twice", "constant %s is defined twice", m[1])
				}
				consts[m[1]] = n
			}
			for ti, t := range s.Terms {
				if t.Name == "" || !known[ti] {
					continue
				}
				c, ok := consts[t.Name]
				if !ok {
					return fail("constant-missing", "no constant is defined for token %s", t.Name)
				}
				if c != codeOf[t.Name] {
					return fail("constant-wrong-code", "constant %s = %d but the token's code is %d", t.Name, c, codeOf[t.Name])
				}
				delete(consts, t.Name)
			}
			var cnames []string
			for n := range consts {
				cnames = append(cnames, n)
			}
			sort.Strings(cnames)
			for _, n := range cnames {
				isNT := false
				for _, nt := range s.NTs {
					if nt.Name == n {
						isNT = true
					}
				}
				if isNT {
					return fail("constant-for-nonterminal", "a token constant is defined for nonterminal %s", n)
				}
			}
			// translate: every code -> its own symbol id, -1 -> end marker, nothing else
			re := goTransFunc
			if v.Lang == "ts" {
				re = tsTransFunc
			}
			m := re.FindStringSubmatch(out)
			if m == nil {
				return fail("translate-not-found", "no translate function in the generated file")
			}
			cases := map[int]int{}
			for _, c := range goCaseRe.FindAllStringSubmatch(m[1], -1) {
				code, _ := strconv.Atoi(c[1])
				id, _ := strconv.Atoi(c[2])
				if _, dup := cases[code]; dup {
					return fail("translate-duplicate-case", "translate has two cases for code %d", code)
				}
				cases[code] = id
			}
			var tnames []string
			for name := range codeOf {
				tnames = append(tnames, name)
			}
			sort.Strings(tnames)
			for _, name := range tnames {
				code := codeOf[name]
				id, ok := cases[code]
				if !ok {
					return fail("translate-missing-case", "translate has no case for %s (code %d)", name, code)
				}
				if id != idOf[name] {
					return fail("translate-wrong-symbol", "translate maps code %d (%s) to symbol %d, its symbol is %d", code, name, id, idOf[name])
				}
				delete(cases, code)
			}
			if len(cases) > 0 {
				var extra []int
				for code := range cases {
					extra = append(extra, code)
				}
				sort.Ints(extra)
				return fail("translate-extra-case", "translate maps code %d, which is no token, to symbol %d", extra[0], cases[extra[0]])
			}
			if !strings.Contains(m[1], "conv") {
				return fail("translate-shape", "translate body not understood")
			}
			res.Count("files_checked", 1)
		}
	}
	lit, expl := 0, 0
	for _, t := range s.Terms {
		if t.Name == "" {
			lit++
		}
		if t.Code != 0 {
			expl++
		}
	}
	if lit > 0 && expl > 0 {
		res.Count("probe_literals_and_explicit_numbers", 1)
	}
	res.Keys = append(res.Keys, hkey(jsonStr(s.Terms), jsonStr(s.Levels)))
	if in.Index%40 == 0 {
		var decl []string
		for _, t := range s.Terms {
			decl = append(decl, fmt.Sprintf("%s(code=%d,decl=%d,tag=%s)", t.Key(), t.Code, t.Decl, t.Tag))
		}
		res.Sample = map[string]any{"tokens": decl, "schedules": len(in.Scheds)}
	}
	return res
}

func init() {
	Register(&Checker{
		ID: "C12", Level: "exploration", Engine: "A",
		Rule: "even cases: usable grammars (all families) that must be processed under every map-order schedule and variant; odd cases: a usable base grammar with ONE injected defect (undefined symbol, %type'd nonterminal without rules, self-/mutually recursive unproductive nonterminal, unreachable unproductive one, unproductive start symbol, unproductive next to nullable ones, deep chain) at an early/late/random position. Oracle: reference productivity/definedness. distinct_nontrivial = distinct grammars.",
		NumCases: func(ctx *Ctx) int { return fixedCases(ctx, 1600, 60000) },
		Gen:      genC12, Exec: execC12,
		Probes:    []string{"usable_runs", "unusable_runs", "refused_with_diagnostic"},
		FaultKeys: []string{"fault_unusable_undefined", "fault_unusable_norules", "fault_unusable_unproductive", "fault_unusable_mutual", "fault_unusable_unreachable", "fault_unusable_start", "fault_unusable_nullable-mix", "fault_unusable_deep"},
		Assume:    []string{"reference productivity fixpoint", "a refusal 'says why' when it carries any non-empty diagnostic that is not a Go runtime error"},
	})
	Register(&Checker{
		ID: "C11", Level: "exploration", Engine: "A",
		Rule: "case = (token-declaration mix, 2 variants incl. typescript, K map-order schedules); mixes of explicit numbers (small, large, negative, next to literal codes), character literals declared or only used, tagged/untagged, declared by %token, only by a precedence line, re-declared to add a number. Checked per run: the symbol table (codes) and the emitted constants and translate switch of the file produced under the same schedule. distinct_nontrivial = distinct token declaration sets.",
		NumCases: func(ctx *Ctx) int { return fixedCases(ctx, 600, 40000) },
		Gen:      genC11, Exec: execC11,
		Probes: []string{"probe_auto_numbered_token", "probe_literals_and_explicit_numbers", "files_checked"},
		Assume: []string{"constants and translate cases are recognised textually in the generated file (const NAME = n; case n: conv = m); the compiled translate function is exercised by the engine-B checks"},
	})
}
