package props

import (
	"fmt"
	"sort"
	"strings"

	lalr "github.com/acekingke/yaccgo/LALR"
	"github.com/acekingke/yaccgo/verifsim/enga"
	"github.com/acekingke/yaccgo/verifsim/ref"
	"github.com/acekingke/yaccgo/verifsim/rng"
	"github.com/acekingke/yaccgo/verifsim/wl"
)

// Auto is a plain snapshot of what yaccgo built in one run.
type Auto struct {
	SymName  []string
	IsNT     []bool
	Value    []int
	Tag      []string
	Prec     []int
	PrecType []int
	RuleL    []int
	RuleR    [][]int
	States   [][]ref.Item
	Goto     []map[int]int
	Trans    []lalr.VerifTrans
	GTable   [][]int
	ErrCode  int
	AccCode  int

	NeedPacked                     bool
	Act, Off, Chk, ActDef, GotoDef []int
	NTerminals                     int
}

func Snapshot(l *lalr.LALR1) *Auto {
	a := &Auto{}
	g := l.G
	for _, s := range g.Symbols {
		a.SymName = append(a.SymName, s.Name)
		a.IsNT = append(a.IsNT, s.IsNonTerminator)
		a.Value = append(a.Value, s.Value)
		a.Tag = append(a.Tag, s.Tag)
		a.Prec = append(a.Prec, s.Prec)
		a.PrecType = append(a.PrecType, int(s.PrecType))
	}
	for _, r := range g.ProductoinRules {
		a.RuleL = append(a.RuleL, int(r.LeftPart.ID))
		var rr []int
		for _, s := range r.RighPart {
			rr = append(rr, int(s.ID))
		}
		a.RuleR = append(a.RuleR, rr)
	}
	for _, ic := range g.LR0.LR0Closure {
		var its []ref.Item
		for _, it := range ic.Items {
			its = append(its, ref.Item{R: it.RuleIndex, D: it.Dot})
		}
		a.States = append(a.States, its)
		gm := map[int]int{}
		for _, gt := range ic.GoTo {
			gm[int(gt.Sym.ID)] = gt.ItemCl
		}
		a.Goto = append(a.Goto, gm)
	}
	a.Trans = l.VerifTransitions()
	a.GTable = l.GTable
	a.ErrCode = l.GenErrorCode()
	a.AccCode = l.GenAcceptCode()
	a.NeedPacked = l.NeedPacked
	a.Act, a.Off, a.Chk, a.ActDef, a.GotoDef = l.ActionTable, l.OffsetTable, l.CheckTable, l.ActionDef, l.GoToDef
	a.NTerminals = len(g.VtSet)
	return a
}

// SymMap relates reference symbol ids and yaccgo symbol ids by name.
type SymMap struct {
	R2Y []int
	Y2R []int
}

// MapSymbols matches the reference grammar with the snapshot: symbols by name,
// and rules in order. An error means yaccgo works on a different grammar than
// the one in the file.
func MapSymbols(g *ref.Grammar, a *Auto) (*SymMap, error) {
	m := &SymMap{R2Y: make([]int, g.NSym()), Y2R: make([]int, len(a.SymName))}
	for i := range m.R2Y {
		m.R2Y[i] = -1
	}
	for i := range m.Y2R {
		m.Y2R[i] = -1
	}
	byName := map[string][]int{}
	for y, n := range a.SymName {
		byName[n] = append(byName[n], y)
	}
	pick := func(name string, wantNT bool, notID int) int {
		for _, y := range byName[name] {
			if y != notID && a.IsNT[y] == wantNT {
				return y
			}
		}
		return -1
	}
	if len(a.SymName) < 2 || a.SymName[0] != "start" || a.SymName[1] != "$" {
		return nil, fmt.Errorf("symbols 0/1 are not the augmented start and the end marker")
	}
	m.R2Y[0], m.Y2R[0] = 0, 0
	m.R2Y[1], m.Y2R[1] = 1, 1
	for r := 2; r < g.NSym(); r++ {
		y := pick(g.Names[r], g.IsNT[r], 0)
		if y < 0 {
			// a terminal that is declared but yaccgo does not know (e.g. use-only literal never used) is fine if unused
			continue
		}
		m.R2Y[r], m.Y2R[y] = y, r
	}
	// rules
	if len(a.RuleL) != len(g.Rules) {
		return nil, fmt.Errorf("yaccgo has %d rules, the file has %d", len(a.RuleL)-1, len(g.Rules)-1)
	}
	for i, r := range g.Rules {
		if m.R2Y[r.L] != a.RuleL[i] {
			return nil, fmt.Errorf("rule %d: left-hand side differs", i)
		}
		if len(r.R) != len(a.RuleR[i]) {
			return nil, fmt.Errorf("rule %d: right-hand side length %d, file has %d", i, len(a.RuleR[i]), len(r.R))
		}
		for k := range r.R {
			if m.R2Y[r.R[k]] != a.RuleR[i][k] {
				return nil, fmt.Errorf("rule %d: symbol %d differs", i, k+1)
			}
		}
	}
	return m, nil
}

// ---------------------------------------------------------------- helpers shared by checkers

// renderSpec renders a spec for generator-only checks.
func renderSpec(s *wl.Spec, v wl.Variant, layoutSeed uint64, epi int) string {
	var lay *rng.R
	if layoutSeed != 0 {
		lay = rng.New(layoutSeed, "layout")
	}
	return wl.Render(s, wl.RenderOpts{Variant: v, Pkg: "main", Epi: epi, Layout: lay})
}

func (in *Input) text(epi int) string {
	if in.Text != "" {
		return in.Text
	}
	return renderSpec(in.Spec, in.Variant, in.LayoutSeed, epi)
}

// schedules draws n schedules for a case: canonical first, then swarm.
func schedules(ctx *Ctx, r *rng.R, n int) []enga.Schedule {
	out := []enga.Schedule{enga.Canonical()}
	for k := 1; k < n; k++ {
		out = append(out, enga.Swarm(r.Uint64(), k-1, ctx.Sites))
	}
	return out
}

func itemsKey(its []ref.Item) string { return ref.KeyOf(its) }

func setNames(m map[int]bool, names []string) string {
	var s []string
	for k := range m {
		s = append(s, names[k])
	}
	sort.Strings(s)
	return "{" + strings.Join(s, ",") + "}"
}

func firstLines(s string, n int) string {
	lines := strings.Split(s, "\n")
	if len(lines) > n {
		lines = append(lines[:n], "...")
	}
	return strings.Join(lines, "\n")
}

// logObs folds what a generation run showed into the case's event-log hash
// (decisions, outcome, stdout, output bytes, fs effects; no tick totals, no timings).
func logObs(res *Result, o *enga.Obs) {
	diag := o.Diag
	if i := strings.Index(diag, "\n"); i >= 0 {
		diag = diag[:i]
	}
	fs := ""
	for _, e := range o.FsLog {
		fs += e.Op + ":" + e.Stage + ":" + fmt.Sprint(e.Err != "") + ";"
	}
	res.LogHash = hkey(res.LogHash, o.Outcome, diag, o.DecHash, o.DecN, hash64(o.Stdout), hash64(string(o.Output)), fs)
	if o.DecN > 0 && len(res.Scheds) < 64 {
		res.Scheds = append(res.Scheds, fmt.Sprintf("%016x", o.DecHash))
	}
}
