// Package engb: Engine B host side. It materialises generated parsers as
// packages of the instrumented module, builds ONE driver binary around a
// batch of them (real go build), runs jobs through it and returns results.
package engb

import (
	"bytes"
	"encoding/json"
	"fmt"
	"os"
	"os/exec"
	"path/filepath"
	"regexp"
	"sort"
	"strings"
	"time"

	"github.com/acekingke/yaccgo/verifsim/engbrt"
)

type Src struct {
	Name   string // package name, e.g. p0003
	Text   string // the generated file, as yaccgo wrote it
	Object bool
	Lang   string // "go" | "ts"
}

type Batch struct {
	Dir      string // .../verifsim/gen/b<id>
	ModRoot  string
	Import   string
	Bin      string
	Srcs     []Src
	CompErrs map[string]string // package -> compiler messages
	Built    []string          // packages in the binary
	div      map[string]int    // parser -> number of parses the watchdog had to stop
	raceBin  string
	nest     map[string]bool // parsers (global form) that offer PushContex/PopContex
}

var batchCounter int

const modPath = "github.com/acekingke/yaccgo"

var errLine = regexp.MustCompile(`(?m)^(?:\./)?(?:verifsim/gen/[^/]+/)?(p[\d_]+)/[^:\s]+:\d+`)

// Build writes the Go sources of the batch and builds the driver; packages that
// do not compile are recorded in CompErrs and left out (the rest is rebuilt).
func Build(modRoot string, srcs []Src) (*Batch, error) {
	batchCounter++
	id := fmt.Sprintf("b%d_%d", os.Getpid(), batchCounter)
	b := &Batch{ModRoot: modRoot, Dir: filepath.Join(modRoot, "verifsim", "gen", id), Import: modPath + "/verifsim/gen/" + id,
		CompErrs: map[string]string{}, nest: map[string]bool{}}
	for _, s := range srcs {
		if s.Lang != "go" {
			continue
		}
		b.Srcs = append(b.Srcs, s)
		d := filepath.Join(b.Dir, s.Name)
		if err := os.MkdirAll(d, 0o755); err != nil {
			return nil, err
		}
		if err := os.WriteFile(filepath.Join(d, "parser.go"), []byte(s.Text), 0o644); err != nil {
			return nil, err
		}
		// nested parsing is offered by the global form through PushContex/PopContex; a tree that does not offer it simply
		// does not get the nested-parse operation (the driver then registers no Push/Pop for this parser)
		if !s.Object && strings.Contains(s.Text, "func PushContex()") && strings.Contains(s.Text, "func PopContex()") {
			b.nest[s.Name] = true
			nf := "package " + s.Name + "\n\nfunc VPush() { PushContex() }\nfunc VPop()  { PopContex() }\n"
			if err := os.WriteFile(filepath.Join(d, "nest.go"), []byte(nf), 0o644); err != nil {
				return nil, err
			}
		}
	}
	live := map[string]bool{}
	for _, s := range b.Srcs {
		live[s.Name] = true
	}
	b.Bin = filepath.Join(b.Dir, "driver.bin")
	for attempt := 0; attempt < 6; attempt++ {
		var names []string
		for n := range live {
			names = append(names, n)
		}
		sort.Strings(names)
		if err := b.writeMain(names); err != nil {
			return nil, err
		}
		cmd := exec.Command("go", "build", "-p", innerP(), "-tags", "verif", "-gcflags=-e", "-o", b.Bin, "./verifsim/gen/"+id)
		cmd.Dir = modRoot
		var out bytes.Buffer
		cmd.Stdout, cmd.Stderr = &out, &out
		err := cmd.Run()
		if err == nil {
			b.Built = names
			return b, nil
		}
		msg := out.String()
		bad := map[string]bool{}
		for _, m := range errLine.FindAllStringSubmatch(msg, -1) {
			bad[m[1]] = true
		}
		if len(bad) == 0 {
			return nil, fmt.Errorf("driver build failed and no generated package is to blame:\n%s", tail(msg, 3000))
		}
		for p := range bad {
			var lines []string
			for _, ln := range strings.Split(msg, "\n") {
				if strings.Contains(ln, "/"+p+"/") {
					lines = append(lines, ln)
				}
			}
			if len(lines) > 12 {
				lines = lines[:12]
			}
			b.CompErrs[p] = strings.Join(lines, "\n")
			delete(live, p)
		}
	}
	return nil, fmt.Errorf("driver build did not converge")
}

// runBounded runs a driver process under a wall-clock backstop far above anything a batch needs: a driver that is still
// running then is harness trouble (the engine's own budgets and watchdog should have ended it), never a verdict.
func runBounded(cmd *exec.Cmd) error {
	if err := cmd.Start(); err != nil {
		return err
	}
	done := make(chan error, 1)
	go func() { done <- cmd.Wait() }()
	select {
	case err := <-done:
		return err
	case <-time.After(driverBackstop):
		cmd.Process.Kill()
		<-done
		return fmt.Errorf("driver still running after %v (wall-clock backstop): harness trouble", driverBackstop)
	}
}

const driverBackstop = 40 * time.Minute

func tail(s string, n int) string {
	if len(s) > n {
		return s[len(s)-n:]
	}
	return s
}

func (b *Batch) writeMain(names []string) error {
	var sb strings.Builder
	sb.WriteString("package main\n\nimport (\n\t\"" + modPath + "/verifsim/engbrt\"\n")
	for _, n := range names {
		fmt.Fprintf(&sb, "\t%s \"%s/%s\"\n", n, b.Import, n)
	}
	sb.WriteString(")\n\nfunc main() {\n")
	obj := map[string]bool{}
	for _, s := range b.Srcs {
		obj[s.Name] = s.Object
	}
	for _, n := range names {
		fmt.Fprintf(&sb, "\tengbrt.Register(&engbrt.Parser{Name: %q, Object: %v, New: %s.VNew, Init: %s.VInit, Parse: %s.VParse, Action: %s.VAction, Translate: %s.VTranslate, Consts: %s.VConsts, Trace: %s.VTrace, ErrAcc: %s.VErrAcc, Boot: %s.VBoot,\n\t\tSetHooks: func(n func(string, int) (int, int), r func(int)) { %s.HookNext = n; %s.HookRec = r }})\n",
			n, obj[n], n, n, n, n, n, n, n, n, n, n, n)
	}
	for _, n := range names {
		if b.nest[n] {
			fmt.Fprintf(&sb, "\tengbrt.SetNest(%q, %s.VPush, %s.VPop)\n", n, n, n)
		}
	}
	sb.WriteString("\tengbrt.Main()\n}\n")
	return os.WriteFile(filepath.Join(b.Dir, "main.go"), []byte(sb.String()), 0o644)
}

// Run executes jobs in one process of the driver binary.
func (b *Batch) Run(jobs []engbrt.Job) ([]engbrt.JobResult, error) {
	if len(jobs) == 0 {
		return nil, nil
	}
	jf := filepath.Join(b.Dir, fmt.Sprintf("jobs-%d.json", batchCounter))
	rf := filepath.Join(b.Dir, fmt.Sprintf("results-%d.json", batchCounter))
	batchCounter++
	jb, err := json.Marshal(jobs)
	if err != nil {
		return nil, err
	}
	if err := os.WriteFile(jf, jb, 0o644); err != nil {
		return nil, err
	}
	cmd := exec.Command(b.Bin, jf, rf)
	var out bytes.Buffer
	cmd.Stdout, cmd.Stderr = &out, &out
	runErr := runBounded(cmd)
	diverged := false
	if runErr != nil {
		if cmd.ProcessState != nil && cmd.ProcessState.ExitCode() == 3 {
			diverged = true
		} else {
			return nil, fmt.Errorf("driver died: %v\n%s", runErr, tail(out.String(), 3000))
		}
	}
	rb, err := os.ReadFile(rf)
	if err != nil {
		return nil, err
	}
	var res []engbrt.JobResult
	if err := json.Unmarshal(rb, &res); err != nil {
		return nil, fmt.Errorf("driver results unreadable (%v; %d bytes; exit %v; diverged=%v): %s", err, len(rb), runErr, diverged, tail(out.String(), 1500))
	}
	os.Remove(jf)
	os.Remove(rf)
	if diverged {
		// the watchdog stopped the driver inside job len(res)-1: continue with what is left
		k := len(res) - 1
		last := &res[k]
		var rest []engbrt.Job
		if b.div == nil {
			b.div = map[string]int{}
		}
		b.div[jobs[k].Parser]++
		nd := b.div[jobs[k].Parser]
		if jobs[k].Kind == "parses" && last.Diverged >= 0 && nd >= 3 {
			// this parser diverges again and again: do not spend more wall clock on it
			for i := last.Diverged + 1; i < len(jobs[k].Feeds); i++ {
				last.Parses = append(last.Parses, engbrt.ParseResult{Outcome: "notrun", Msg: "skipped after repeated divergence"})
			}
		} else if jobs[k].Kind == "parses" && last.Diverged >= 0 && last.Diverged+1 < len(jobs[k].Feeds) {
			cont := jobs[k]
			cont.Feeds = jobs[k].Feeds[last.Diverged+1:]
			cont.Tag = "\x00cont"
			rest = append(rest, cont)
		}
		rest = append(rest, jobs[k+1:]...)
		more, err := b.Run(rest)
		if err != nil {
			return nil, err
		}
		if len(more) > 0 && more[0].Tag == "\x00cont" {
			last.Parses = append(last.Parses, more[0].Parses...)
			more = more[1:]
		}
		res = append(res, more...)
	}
	return res, nil
}

// Cleanup removes the batch directory with its build output.
func (b *Batch) Cleanup() { os.RemoveAll(b.Dir) }

// ---------------------------------------------------------------- TypeScript

// RunTS runs jobs against generated TypeScript files through the node runner.
// files: name -> path of the generated .ts file.
func RunTS(verifDir, scratch string, files map[string]string, jobs []engbrt.Job) ([]engbrt.JobResult, error) {
	if len(jobs) == 0 {
		return nil, nil
	}
	batchCounter++
	jf := filepath.Join(scratch, fmt.Sprintf("tsjobs-%d-%d.json", os.Getpid(), batchCounter))
	rf := filepath.Join(scratch, fmt.Sprintf("tsres-%d-%d.json", os.Getpid(), batchCounter))
	defer os.Remove(jf)
	defer os.Remove(rf)
	jb, _ := json.Marshal(map[string]any{"files": files, "jobs": jobs})
	if err := os.WriteFile(jf, jb, 0o644); err != nil {
		return nil, err
	}
	cmd := exec.Command("node", filepath.Join(verifDir, "sim", "js", "runner.js"), jf, rf)
	var out bytes.Buffer
	cmd.Stdout, cmd.Stderr = &out, &out
	if err := runBounded(cmd); err != nil {
		return nil, fmt.Errorf("node runner died: %v\n%s", err, tail(out.String(), 3000))
	}
	rb, err := os.ReadFile(rf)
	if err != nil {
		return nil, err
	}
	var res []engbrt.JobResult
	if err := json.Unmarshal(rb, &res); err != nil {
		return nil, fmt.Errorf("node runner output: %v", err)
	}
	return res, nil
}

// BuildOnly compiles the given Go sources as packages (no driver): used by C16, where the epilogue is the minimal one.
// It returns the compiler messages per failing package and go vet's complaints (informational).
func BuildOnly(modRoot string, srcs []Src) (compErrs map[string]string, vet map[string]string, dir string, err error) {
	batchCounter++
	id := fmt.Sprintf("c%d_%d", os.Getpid(), batchCounter)
	dir = filepath.Join(modRoot, "verifsim", "gen", id)
	for _, s := range srcs {
		d := filepath.Join(dir, s.Name)
		if e := os.MkdirAll(d, 0o755); e != nil {
			return nil, nil, dir, e
		}
		if e := os.WriteFile(filepath.Join(d, "parser.go"), []byte(s.Text), 0o644); e != nil {
			return nil, nil, dir, e
		}
	}
	compErrs, vet = map[string]string{}, map[string]string{}
	run := func(args ...string) string {
		cmd := exec.Command("go", args...)
		cmd.Dir = modRoot
		var out bytes.Buffer
		cmd.Stdout, cmd.Stderr = &out, &out
		cmd.Run()
		return out.String()
	}
	msg := run("build", "-p", innerP(), "-gcflags=-e", "./verifsim/gen/"+id+"/...")
	collect := func(msg string, into map[string]string) {
		for _, ln := range strings.Split(msg, "\n") {
			m := errLine.FindStringSubmatch(ln)
			if m == nil {
				continue
			}
			if len(into[m[1]]) < 1500 {
				into[m[1]] += ln + "\n"
			}
		}
	}
	collect(msg, compErrs)
	if strings.TrimSpace(msg) != "" && len(compErrs) == 0 {
		return nil, nil, dir, fmt.Errorf("go build failed without naming a generated package:\n%s", tail(msg, 2000))
	}
	return compErrs, vet, dir, nil
}

// innerP: parallelism of a go build started by one of N worker processes (the workers already occupy the cores).
func innerP() string {
	if v := os.Getenv("VERIF_INNER_P"); v != "" {
		return v
	}
	return "3"
}

// RunRace builds (once) a second driver binary with the race detector and runs the jobs through it. It returns the
// results and what the race detector printed.
func (b *Batch) RunRace(jobs []engbrt.Job) ([]engbrt.JobResult, string, error) {
	if b.raceBin == "" {
		bin := filepath.Join(b.Dir, "driver.race.bin")
		cmd := exec.Command("go", "build", "-race", "-p", innerP(), "-tags", "verif", "-o", bin, "./verifsim/gen/"+filepath.Base(b.Dir))
		cmd.Dir = b.ModRoot
		var out bytes.Buffer
		cmd.Stdout, cmd.Stderr = &out, &out
		if err := cmd.Run(); err != nil {
			return nil, "", fmt.Errorf("race build failed: %v\n%s", err, tail(out.String(), 2000))
		}
		b.raceBin = bin
	}
	batchCounter++
	jf := filepath.Join(b.Dir, fmt.Sprintf("rjobs-%d.json", batchCounter))
	rf := filepath.Join(b.Dir, fmt.Sprintf("rresults-%d.json", batchCounter))
	jb, err := json.Marshal(jobs)
	if err != nil {
		return nil, "", err
	}
	if err := os.WriteFile(jf, jb, 0o644); err != nil {
		return nil, "", err
	}
	cmd := exec.Command(b.raceBin, jf, rf)
	cmd.Env = append(os.Environ(), "GORACE=halt_on_error=0 exitcode=0")
	var out bytes.Buffer
	cmd.Stdout, cmd.Stderr = &out, &out
	if err := runBounded(cmd); err != nil {
		return nil, out.String(), fmt.Errorf("race driver died: %v\n%s", err, tail(out.String(), 3000))
	}
	rb, err := os.ReadFile(rf)
	if err != nil {
		return nil, out.String(), err
	}
	var res []engbrt.JobResult
	if err := json.Unmarshal(rb, &res); err != nil {
		return nil, out.String(), err
	}
	os.Remove(jf)
	os.Remove(rf)
	return res, out.String(), nil
}
